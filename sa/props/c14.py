"""C14 - config parsing is total and a failed load changes nothing.

Decided: atomicity by phase separation (the parse phase never references the live tree and
cannot deliver a hook; the merge runs only after the parse loop completed; no non-local exit is
reachable from the merge; the status returned is the parse status); the scratch tree and the
file buffer are freed on every path; moved pointers are nulled at the source; the file buffer
and the string scanners never step past the terminating NUL.  Not decided: termination and
absence of leaks on the error exits."""
from ..facts import AnalysisBroken
from ..model import sx, walk, is_var, is_field, const_of, vars_in, root_var, same, on_path
from .. import rules

UNIT = 'src/config.c'
LIVE = 'conf_root'
EXPLANATION = (
    'Rules over src/config.c: (WMC.1) the live root is a file static; no function of the parse phase '
    '(definite call closure of the entry parser and the file reader) references it, and every call of the '
    'entry parser passes the scratch root or a node obtained from the scratch tree; (WMC.2) the only hook '
    'call in the parse closure is the null-guarded one of the shared list setter, no function of the unit '
    'stores a hook, and scratch nodes come from the zeroing allocator; (MPT.1) in conf_read the merge is '
    'called on the setjmp()==0 branch after the parse loop, every longjmp lies in the parse closure, none '
    'is reachable from the merge, and the error branches do not touch the live root; (MPT.3) the status '
    'returned is the setjmp result - nothing else is ever stored into it - so a load that merged reports '
    'success; (MPT.2) the scratch tree and the file buffer are released on every path to the return; '
    '(OWN.1) every heap pointer moved from a scratch node to a live node is nulled at the source on all '
    'paths; (BND.1) the file buffer is size+1 bytes and terminated at size; (BND.2) scanner typestate: the '
    'quoted-string scan and the whitespace/comment skipper never advance past a byte that may be the '
    'terminating NUL, and the decoder\'s buffer is the scanned length plus one with at most one byte stored '
    'per byte consumed; (BND.3) in the decoding pass an escape skips at most the backslash, the escaped '
    'character and the bytes proven to be hex digits.  Termination and leaks on error exits are not decided.'
    ' Rounds 8-9: (BND.5) vector capacity updates strictly grow; (BND.6) tables indexed by a value computed from the text stay in range; (BND.7) a file size is known to fit before it reaches a narrower parameter; (MPT.6) a va_list is walked once; (WIRE.2) the reload signal is persistent.')
ASSUMPTIONS = ['clang 14 CFG; setjmp/longjmp modelled through the call graph (clang builds no longjmp edges)',
               'allocation failure is fatal (xmalloc)']


def parse_closure(P):
    roots = [P.need_fn('conf_parse_entry'), P.need_fn('conf_read_file')]
    cl = P.closure(roots, may=False)
    return {k: f for k, f in cl.items() if f.unit == UNIT}


def refs_live(f):
    out = []
    for s in f.sites():
        for ex in rules.event_exprs(s.ev):
            if any(is_var(x, LIVE) for x in walk(ex)):
                out.append(s)
    for b in f.blocks.values():
        c = (b.get('term') or {}).get('cond')
        if c is not None and any(is_var(x, LIVE) for x in walk(c)):
            out.append(None)
    return out


def phase_separation(P, R):
    g = P.global_def(LIVE, UNIT)
    R.ob('C14.WMC.1', bool(g) and g[1].get('static'), P.need_fn('conf_read'), 'the live configuration root is private to the config unit', key='live-static', nontrivial=False)
    pc = parse_closure(P)
    for f in sorted(pc.values(), key=lambda x: x.key):
        r = refs_live(f)
        R.ob('C14.WMC.1', not r, f, 'parse-phase function %s never references the live tree' % f.name, key='noref:%s' % f.name,
             detail=[x.loc for x in r if x is not None] or None)
    # callers of the entry parser pass a scratch parent
    pe = P.need_fn('conf_parse_entry')
    for s in P.callers(pe, may=False):
        a = s.ev['args'][1]
        ok = False
        what = sx(a)
        if a.get('k') == 'un' and a['op'] == '&' and is_field(a['e'], 'root', 'conf_parse'):
            ok = True
        elif is_var(a):
            for d in s.fn.local_defs(a['name']):
                v = d.ev.get('rhs') or d.ev.get('init') or {}
                if v.get('callee') == 'conf_parse_get_child':
                    ok = True
        R.ob('C14.WMC.1', ok, s, 'the entry parser is given the scratch root or a node of the scratch tree (%s)' % what, key='scratch-parent:%s' % s.fn.name)
    R.floor('C14.WMC.1', 6)
    # WMC.2
    hookcalls = [s for f in pc.values() for s in f.calls() if P.call_slot(s) == 'conf_node_base::hook']
    for s in hookcalls:
        ok = any(is_field(g2[0], 'hook') and g2[1] == '!=' and const_of(g2[2]) == 0 for g2 in s.fn.guards(s.bid))
        R.ob('C14.WMC.2', ok and s.fn.name == 'conf_set_string_list_value', s, 'the only hook call reachable while parsing is the null-guarded one of the list setter', key='hook-in-parse')
    stores = [s for f in P.unit_fns(UNIT) for s in f.stores() if s.ev['k'] == 'store' and is_field(s.ev['lhs'], 'hook')]
    R.ob('C14.WMC.2', not stores, stores[0] if stores else pe, 'the config unit never installs a hook itself (scratch nodes carry none)', key='no-hook-store')
    gc = P.need_fn('conf_parse_get_child')
    allocs = [s for s in gc.sites() if (s.ev.get('rhs') or s.ev.get('init') or {}).get('callee') in ('xmalloc', 'calloc')]
    xm = P.need_fn('xmalloc')
    R.ob('C14.WMC.2', bool(allocs) and any(rules.is_call(t, 'calloc') for t in xm.calls()), allocs[0] if allocs else gc, 'scratch nodes come from the zeroing allocator', key='zero-alloc', nontrivial=False)
    R.floor('C14.WMC.2', 3)
    return pc


def merge_position(P, R, pc):
    cr = P.need_fn('conf_read')
    merges = [s for s in cr.calls('conf_replace_value')]
    R.ob('C14.MPT.1', len(merges) == 1, merges[0] if merges else cr, 'conf_read merges at exactly one place', key='one-merge')
    sj = [s for s in cr.stores() if (s.ev.get('rhs') or {}).get('callee') in ('setjmp', '_setjmp', '__sigsetjmp')]
    if not sj or not merges:
        raise AnalysisBroken('conf_read lost its setjmp or its merge')
    resv = sj[0].ev['lhs']['name']
    m = merges[0]
    # on the res == 0 branch: the switch edge case 0 dominates the merge
    dom = cr.dominating_edges(m.bid)
    on0 = any(e.label == 'case' and e.vs == [0] and is_var(e.cond, resv) for e in dom) or any(is_var((e.rel() or [{}])[0], resv) and (e.rel() or [0, 0])[1] == '==' for e in dom if e.rel())
    R.ob('C14.MPT.1', on0, m, 'the merge is reached only on the setjmp() == 0 branch', key='merge-on-success')
    # after the parse loop: every call of the entry parser in conf_read precedes the merge, none follows
    pes = [s for s in cr.calls('conf_parse_entry')]
    after = [s for s in pes if s.bid in cr.reach([m.bid]) and not (s.bid == m.bid and s.idx < m.idx)]
    R.ob('C14.MPT.1', bool(pes) and not after, m, 'the merge runs after the parse loop has completed; no parsing follows it', key='merge-after-loop')
    a = m.ev['args']
    R.ob('C14.MPT.1', any(is_var(x, LIVE) for x in walk(a[0])) and any(is_field(x, 'root', 'conf_parse') for x in walk(a[1])), m, 'the merge applies the scratch root to the live root', key='merge-args', nontrivial=False)
    # longjmp sites
    lj = [s for f in P.unit_fns(UNIT) for s in f.calls('longjmp')]
    out = [s for s in lj if s.fn.key not in pc]
    R.ob('C14.MPT.1', bool(lj) and not out, lj[0] if lj else cr, 'every syntax-error exit (longjmp) lies in the parse phase (%d sites)' % len(lj), key='longjmp-in-parse', detail=[s.loc for s in out] or None)
    # the logger exits only for LOG_FATAL and the allocators only when memory is exhausted: do not descend
    # into them, but no call in the merge may log at LOG_FATAL
    stopk = {f.key for n in ('log_message', 'log_vmessage', 'xmalloc', 'xstrdup', 'xrealloc') for f in P.by_name.get(n, [])}
    mc = P.closure([P.need_fn('conf_replace_value')], may=False, stop=stopk)
    bad = [s for f in mc.values() for s in f.calls() if s.ev.get('callee') in ('longjmp', 'exit', '_exit', 'abort')
           or (s.ev.get('callee') == 'log_message' and len(s.ev['args']) > 1 and s.ev['args'][1].get('name') == 'LOG_FATAL')]
    R.ob('C14.MPT.1', not bad, bad[0] if bad else m, 'no non-local exit is reachable from the merge', key='merge-no-exit')
    # the error branches do not touch the live tree
    others = [s for s in cr.sites() if s.key != m.key and any(is_var(x, LIVE) for ex in rules.event_exprs(s.ev) for x in walk(ex))]
    R.ob('C14.MPT.1', not others, others[0] if others else cr, 'outside the merge call conf_read never touches the live root', key='errors-leave-live')
    # MPT.3: the status is the setjmp result
    ws = [s for s in cr.stores() if s.ev['k'] == 'store' and is_var(s.ev.get('lhs'), resv)]
    R.ob('C14.MPT.3', len(ws) == 1 and ws[0].key == sj[0].key, ws[-1] if ws else cr, 'the status variable is only ever assigned by setjmp(): a load that merged reports success, an error means nothing was merged', key='status-writer',
         detail=[s.loc for s in ws if s.key != sj[0].key] or None)
    rets = [s for s in cr.sites() if s.ev['k'] == 'ret']
    R.ob('C14.MPT.3', bool(rets) and all(is_var(s.ev.get('val'), resv) for s in rets), rets[0] if rets else cr, 'conf_read returns that status', key='status-returned')
    # MPT.2
    for nm, pred in (('the scratch tree is cleared with disposal', lambda t: rules.is_call(t, 'set_clear') and any(is_field(x, 'root', 'conf_parse') for x in walk(t.ev['args'][0])) and const_of(t.ev['args'][1]) == 0),
                     ('the file buffer is freed', lambda t: rules.is_call(t, 'free') and any(is_field(x, 'data', 'conf_parse') for x in walk(t.ev['args'][0])))):
        p = cr.path_avoiding(sj[0], pred)
        R.ob('C14.MPT.2', p is None, cr, 'on every path from the setjmp to the return %s' % nm, key='cleanup:%s' % nm.split()[1])
    R.floor('C14.MPT.1', 7)
    R.floor('C14.MPT.3', 2)
    R.floor('C14.MPT.2', 2)


def bounded_recursion(P, R, pc, rule='C14.MPT.5'):
    """Reading a file terminates without exhausting the stack: the input decides how deep the parser recurses (one
    level per opening brace), so every recursive call in the parse phase sits behind a depth bound - a counter that is
    stepped up on the way in and compared with a constant, the far side of the comparison leaving through the error
    exit.  The merge and the cleanup recurse too, but over the tree the parser built, whose depth that bound limits;
    they are listed, not constrained."""
    cr = P.need_fn('conf_read')
    cl = {k: f for k, f in P.closure([cr], may=True).items() if f.unit in (UNIT, 'src/set.c')}
    # direct and mutual recursion: f reaches itself through the call graph restricted to the closure
    succ = {}
    for k, f in cl.items():
        succ[k] = {t.key for s in f.calls() for t in P.callees(s, True) if t.key in cl}

    def reaches(a, b):
        seen, work = set(), list(succ.get(a, ()))
        while work:
            x = work.pop()
            if x == b:
                return True
            if x in seen:
                continue
            seen.add(x)
            work.extend(succ.get(x, ()))
        return False
    n = 0
    for k, f in sorted(cl.items()):
        if not reaches(k, k):
            continue
        rec_sites = [s for s in f.calls() if any(t.key == k or reaches(t.key, k) for t in P.callees(s, True) if t.key in cl)]
        if k not in pc:
            n += 1
            R.ob(rule, True, f, '%s recurses over the tree the parser built (depth limited by the parser\'s bound)' % f.name, key='recursion:tree:%s' % f.name, nontrivial=False)
            continue
        stepped = set()
        for t in f.stores():
            if t.ev['k'] == 'store' and t.ev.get('op') in ('++', '+='):
                stepped.add(sx(t.ev['lhs']))
        for s in rec_sites:
            gs = f.guards(s.bid)
            def counter(e):
                # `++depth > K` tests the counter after the step
                if isinstance(e, dict) and e.get('k') == 'un' and e.get('op') == '++' and not e.get('postfix'):
                    e = e.get('e')
                return e
            gs = [(counter(g[0]), g[1], g[2]) for g in gs]
            bound = [g for g in gs if isinstance(g[0], dict) and sx(g[0]) in stepped and g[1] in ('<=', '<') and isinstance(const_of(g[2]), int)]
            # the step up happens before the call on every path
            stepped_before = bool(bound) and any(t.ev['k'] == 'store' and sx(t.ev['lhs']) == sx(bound[0][0]) and t.ev.get('op') in ('++', '+=') and (f.dominates(t.bid, s.bid) or t.bid == s.bid) for t in f.stores())
            n += 1
            R.ob(rule, bool(bound) and stepped_before, s, 'the recursive call of %s is made only below a depth bound (%s)' % (
                f.name, ('%s %s %s' % (sx(bound[0][0]), bound[0][1], sx(bound[0][2]))) if bound else 'no counter compared with a constant guards it'), key='recursion:bounded:%s' % f.name)
    R.floor(rule, 2, 'recursive functions reachable from conf_read')


NODE_RECS = ('conf_node_base', 'conf_node_string', 'conf_node_object', 'conf_node_string_list', 'conf_node_inaddr')
NODE_TEXTS = ('name', 'value', 'hostname', 'service')


def node_texts_read_only(P, R, rule='C16.OWN.2'):
    """What the file said stays what the tree says: outside the configuration unit nobody writes into a node's name or
    text - not directly, and not by handing it to a function that writes through the pointer it is given (a hook that
    splits "facility.severities" in place, and leaves on an error before it has put the separator back, renames the
    node in the live tree)."""
    unit = P.need_fn('conf_read').unit
    wp = P.written_params()
    n = 0

    def node_text(e):
        return any(isinstance(x, dict) and x.get('k') == 'mem' and x.get('rec') in NODE_RECS and x.get('field') in NODE_TEXTS for x in walk(e))
    for f in P.fns.values():
        if f.unit == unit or f.unit.startswith('tests/'):
            continue
        for s in f.sites():
            ev = s.ev
            if ev['k'] == 'store':
                lv = ev.get('lhs') or {}
                # a byte of the text: x->name[i] = ..., *x->value = ...
                if lv.get('k') in ('idx', 'un') and node_text(lv):
                    n += 1
                    R.ob(rule, False, s, '%s writes into the configuration text %s' % (f.name, sx(lv)), key='node-text-written:%s' % f.name)
            if ev['k'] == 'call':
                written = set(P.call_written_args(s, wp))
                for i, a in enumerate(ev['args']):
                    if not node_text(a):
                        continue
                    # only the text itself counts (its address taken, or a node pointer, is another matter)
                    if not (isinstance(a, dict) and 'char' in (a.get('t') or '')):
                        continue
                    n += 1
                    R.ob(rule, i not in written, s, '%s passes the configuration text %s to %s read-only' % (f.name, sx(a), ev.get('callee') or 'a callback'), key='node-text:%s:%s' % (f.name, ev.get('callee')),
                         nontrivial=(i in written))
    R.floor(rule, 3, 'uses of configuration texts outside the configuration unit')


def defaults_read_only(P, R, rule='C14.OWN.6'):
    """A registered default outlives every load: after registration nothing writes it - neither directly nor by handing
    it to a function that writes through the pointer it is given (a setter that MOVES strings out of the vector it
    receives empties the default the second time a setting falls back to it, and a later fall-back reads NULLs)."""
    unit = P.need_fn('conf_read').unit
    wp = P.written_params()
    n = 0
    for f in P.unit_fns(unit):
        if f.name.startswith('conf_register_') or f.name in ('conf_object_cleanup',):
            continue
        for s in f.sites():
            ev = s.ev
            if ev['k'] == 'store':
                lv = ev.get('lhs')
                if any(isinstance(x, dict) and x.get('k') == 'mem' and str(x.get('field', '')).startswith('def_') for x in walk(lv)):
                    n += 1
                    R.ob(rule, False, s, '%s writes the registered default %s' % (f.name, sx(lv)), key='default-written:%s' % f.name)
            if ev['k'] == 'call':
                for i in P.call_written_args(s, wp):
                    if i < len(ev['args']) and any(isinstance(x, dict) and x.get('k') == 'mem' and str(x.get('field', '')).startswith('def_') for x in walk(ev['args'][i])):
                        n += 1
                        R.ob(rule, False, s, '%s hands the registered default %s to %s, which writes through that argument' % (f.name, sx(ev['args'][i]), ev.get('callee')), key='default-written:%s' % f.name)
                if any(isinstance(x, dict) and x.get('k') == 'mem' and str(x.get('field', '')).startswith('def_') for a in ev['args'] for x in walk(a)):
                    n += 1
                    R.ob(rule, True, s, '%s passes a registered default to %s read-only' % (f.name, ev.get('callee')), key='default-read:%s' % f.name, nontrivial=False)
    R.floor(rule, 2, 'uses of registered defaults outside registration')


def ownership(P, R, rule='C14.OWN.1'):
    rv = P.need_fn('conf_replace_value')
    n = 0
    for s in rv.stores():
        if s.ev['k'] != 'store' or s.ev.get('op') != '=':
            continue
        l, r = s.ev['lhs'], s.ev.get('rhs') or {}
        direct = l.get('k') == 'mem' and r.get('k') == 'mem' and l['field'] == r['field'] and l.get('t') == 'char *' and isinstance(l.get('base'), dict) and isinstance(r.get('base'), dict) and sx(l['base']) != sx(r['base'])
        # ... or the move goes through a local: `new_value = source->value; ... target->value = new_value;`
        via_local = is_var(l) and l.get('sc') == 'local' and r.get('k') == 'mem' and r.get('t') == 'char *' and is_var(r.get('base')) and r['base']['name'].startswith('source') \
            and any(t.ev['k'] == 'store' and (t.ev['lhs'] or {}).get('k') == 'mem' and t.ev['lhs'].get('field') == r['field'] and any(is_var(x, l['name']) for x in walk(t.ev.get('rhs') or {})) for t in rv.stores())
        if direct or via_local:
            n += 1
            src = r

            def nulls(t, src=src, dst=l, s=s):
                if not (t.ev['k'] == 'store' and same(t.ev['lhs'], src)):
                    return False
                if const_of(t.ev.get('rhs')) == 0:
                    return True
                # a swap: the source takes the pointer the destination held before (saved in a local ahead of the
                # move), so each tree ends up owning exactly one of the two
                v = t.ev.get('rhs')
                if is_var(v):
                    d = rv.single_def(v['name'])
                    return bool(d) and same(d[1], dst) and rv.before(d[0], s)
                return False
            p = rv.path_avoiding(s, nulls)
            R.ob(rule, p is None, s, 'the pointer moved by %s = %s is nulled at the source (or swapped for the one it replaces) on every path (both trees are disposed later)' % (sx(l), sx(r)), key='move:%s' % r['field'])
    R.floor(rule, 3, 'pointer moves from the scratch tree')


def scanner_typestate(f, ptr_pred, rule, R, what, ctype_ok=('isspace', 'isdigit', 'isalpha', 'isalnum'), stop=None, exit_check=True, last_before_nul=None):
    """Typestate for a scan over a NUL-terminated buffer.  States describe the byte under the pointer:
    (`last_before_nul`: when the producer of the buffer is known to put one fixed byte right before the terminating
    NUL, a byte known to be a DIFFERENT character is not the last one, so the position after it - state 'inner' -
    is still in front of the terminator and may be stepped over untested; ('is', c) = byte known to equal c.)
    'cur?' valid position, byte untested; 'curNZ' byte known non-NUL; 'curZ' byte known NUL;
    ('over', v) the pointer has just been advanced over a byte that was read into v ('' = compared
    in place) and may have been the NUL; 'out' the pointer is one past the NUL.
    Advancing needs 'curNZ'; a read-advance `v = *p++` needs a valid position and must be followed by
    a test of v (non-NUL -> valid again, NUL -> step back) before the pointer is used again."""
    problems = []
    # classify every ++ event on the pointer by its enclosing expression
    kind = {}
    valvar = {}
    exprs = []
    for s in f.sites():
        for ex in rules.event_exprs(s.ev):
            exprs.append((s, ex))
    for b in f.blocks.values():
        c = (b.get('term') or {}).get('cond')
        if c is not None:
            exprs.append((None, c))
    for s, ex in exprs:
        for x in walk(ex):
            if x.get('k') == 'un' and x['op'] == '*' and isinstance(x['e'], dict) and x['e'].get('k') == 'un' and x['e']['op'] == '++' and ptr_pred(x['e']['e']):
                evid = x['e'].get('ev')
                kind[evid] = 'readadv' if x['e'].get('postfix') else 'preadv'
                if s is not None:
                    ev = s.ev
                    val = ev.get('rhs') if ev['k'] == 'store' else ev.get('init') if ev['k'] == 'decl' else None
                    if val is x:
                        valvar[evid] = ev['lhs']['name'] if ev['k'] == 'store' and is_var(ev.get('lhs')) else ev.get('var')

    def cur_test(l):
        """relation subject is the byte under the pointer: *p, *++p, or a ctype-table lookup of it"""
        if not isinstance(l, dict):
            return False
        # `(c = *p) != 0`: the value tested is the byte just read
        while l.get('k') == 'bin' and l.get('op') == '=' and isinstance(l.get('r'), dict):
            l = l['r']
        if l.get('k') == 'un' and l['op'] == '*':
            e = l['e']
            if ptr_pred(e):
                return True
            if e.get('k') == 'un' and e['op'] == '++' and not e.get('postfix') and ptr_pred(e['e']):
                return True
        return False

    def ctype_lookup(l):
        """char_types[(unsigned char)*p] & FLAG: non-zero only for non-NUL bytes"""
        if isinstance(l, dict) and l.get('k') == 'bin' and l['op'] == '&' and l['l'].get('k') == 'idx' and is_var(l['l']['base'], 'char_types'):
            return any(cur_test(x) for x in walk(l['l']['index']))
        return False

    def is_nz(st):
        return st == 'curNZ' or (isinstance(st, tuple) and st[0] == 'is')

    def after(st):
        """state of the position after a byte known to be non-NUL"""
        if isinstance(st, tuple) and st[0] == 'is' and last_before_nul is not None and st[1] != last_before_nul:
            return 'inner'
        return 'cur?'

    def on_event(st, s):
        ev = s.ev
        if ev['k'] == 'store' and ptr_pred(ev.get('lhs')):
            op = ev.get('op')
            if op == '++':
                k = kind.get(ev.get('id'), 'plain')
                if st == 'inner':
                    return 'cur?'
                if k == 'readadv':
                    if st == 'cur?':
                        return ('over', valvar.get(ev.get('id'), ''))
                    if is_nz(st):
                        return after(st)
                    if st == 'curZ':
                        return 'out'
                    if isinstance(st, tuple) and st[0] == 'out':
                        st = 'out'
                    problems.append((s, 'a byte is read and stepped over although the previous byte stepped over was never tested against the terminating NUL'))
                    return ('over', valvar.get(ev.get('id'), ''))
                if not is_nz(st):
                    problems.append((s, 'the scan pointer is advanced over a byte that is not known to be non-NUL (state %s)' % (st if isinstance(st, str) else st[0])))
                return after(st)
            if op == '--':
                return 'curZ' if (st == 'out' or (isinstance(st, tuple) and st[0] == 'out')) else 'cur?'
            if op == '+=':
                rhs = ev.get('rhs') or {}
                if rhs.get('k') == 'callref' and rhs.get('callee') in ('strcspn', 'strspn', 'strlen') and rhs.get('args') and ptr_pred(rhs['args'][0]) \
                        and (st in ('cur?', 'curNZ', 'curZ', 'inner') or is_nz(st)):
                    # a span measured from the cursor itself ends at or before the terminating NUL
                    return 'curZ' if rhs['callee'] == 'strlen' else 'cur?'
                problems.append((s, 'the scan pointer jumps ahead by a computed amount'))
                return 'cur?'
            return 'cur?'
        return st

    def on_edge(st, e):
        # `switch (*p++)` / `switch (v)` with v the byte just stepped over: the labels say whether it was the NUL
        if e.label in ('case', 'default') and e.cond is not None and isinstance(st, tuple) and st[0] == 'over':
            v = st[1]
            c0 = e.cond
            subj = (v and is_var(c0, v)) or (not v and isinstance(c0, dict) and c0.get('k') == 'un' and c0.get('op') == '*' and isinstance(c0.get('e'), dict)
                                                and c0['e'].get('k') == 'un' and c0['e'].get('op') == '++' and c0['e'].get('postfix') and ptr_pred(c0['e'].get('e')))
            if subj:
                if e.label == 'case':
                    vs = e.vs or []
                    if vs and all(x != 0 for x in vs):
                        return 'cur?'
                    if vs and all(x == 0 for x in vs):
                        return ('out', v)
                    return st
                if 0 in (e.notin or []):
                    return 'cur?'
                return st
        # `switch (*p)`: the labels classify the byte under the pointer
        if e.label in ('case', 'default') and e.cond is not None and cur_test(e.cond) and (st in ('cur?', 'curNZ', 'curZ', 'inner') or is_nz(st)):
            if e.label == 'case':
                vs = e.vs or []
                if vs and all(x != 0 for x in vs):
                    return None if st == 'curZ' else (st if is_nz(st) else 'curNZ')
                if vs and all(x == 0 for x in vs):
                    return None if is_nz(st) else ('inner' if st == 'inner' else 'curZ')
                return st
            if 0 in (e.notin or []):
                return None if st == 'curZ' else (st if is_nz(st) else 'curNZ')
            return st
        r = rules.edge_rel(e)
        if not r:
            return st
        l, op, rr = r
        c = const_of(rr)
        nz = (op == '==' and c not in (None, 0)) or (op == '!=' and c == 0) or (op in ('>', '>=') and c is not None and c >= 1)
        z = (op == '==' and c == 0)
        if isinstance(st, tuple) and st[0] == 'over':
            v = st[1]
            subj = False
            if v and is_var(l, v):
                subj = True
            if not v and isinstance(l, dict) and l.get('k') == 'un' and l['op'] == '*' and l['e'].get('k') == 'un' and l['e']['op'] == '++' and l['e'].get('postfix') and ptr_pred(l['e']['e']):
                subj = True
            if v and isinstance(l, dict) and l.get('k') == 'callref' and l.get('callee') in ctype_ok and l['args'] and is_var(l['args'][0], v) and op == '!=' and c == 0:
                return 'cur?'
            if subj:
                if nz:
                    return 'cur?'
                if z:
                    return ('out', v)
            return st
        if isinstance(st, tuple) and st[0] == 'out':
            # the byte stepped over was the NUL and lives in v: a later test that says otherwise is infeasible
            if st[1] and is_var(l, st[1]) and (nz or (op == '!=' and c == 0)):
                return None
            return st
        if st in ('cur?', 'curNZ', 'curZ', 'inner') or is_nz(st):
            if cur_test(l):
                if isinstance(st, tuple):
                    # the byte is known: decide the test
                    if isinstance(c, int) and op in ('==', '!='):
                        return st if ((st[1] == (c & 255)) == (op == '==')) else None
                    return st
                if nz:
                    if st == 'curZ':
                        return None
                    return ('is', c & 255) if (op == '==' and isinstance(c, int)) else 'curNZ'
                if z:
                    return None if st == 'curNZ' else ('inner' if st == 'inner' else 'curZ')
            if ctype_lookup(l) and op == '!=' and c == 0:
                return st if is_nz(st) else 'curNZ'
        return st
    # `c = *p; if (c != 0) ... p++`: a local that holds the byte under the pointer.  State ('peek', v) is 'cur?' plus
    # "v is that byte": a test of v is a test of the byte, any move of the pointer or store to v ends the pairing.
    _ev0, _ed0 = on_event, on_edge

    def on_event(st, s):
        ev = s.ev
        base = st[2] if (isinstance(st, tuple) and st[0] == 'peek') else st
        if ev['k'] in ('store', 'decl') and base in ('cur?', 'inner', 'curZ', 'curNZ'):
            v = ev['lhs']['name'] if ev['k'] == 'store' and is_var(ev.get('lhs')) and ev.get('op') == '=' else ev.get('var') if ev['k'] == 'decl' else None
            val = ev.get('rhs') if ev['k'] == 'store' else ev.get('init')
            if v and isinstance(val, dict) and val.get('k') == 'un' and val.get('op') == '*' and ptr_pred(val.get('e')):
                return ('peek', v, base)
        if isinstance(st, tuple) and st[0] == 'peek':
            if ev['k'] == 'store' and is_var(ev.get('lhs'), st[1]):
                return base
            r = _ev0(base, s)
            return st if r == base and not (ev['k'] == 'store' and ptr_pred(ev.get('lhs'))) else r
        return _ev0(st, s)

    def on_edge(st, e):
        if isinstance(st, tuple) and st[0] == 'peek':
            base = st[2]
            r = rules.edge_rel(e)
            if r and is_var(r[0], st[1]):
                c = const_of(r[2])
                if (r[1] == '==' and c not in (None, 0)) or (r[1] == '!=' and c == 0) or (r[1] in ('>', '>=') and c is not None and c >= 1):
                    return None if base == 'curZ' else ('peek', st[1], 'curNZ')
                if r[1] == '==' and c == 0:
                    return None if base == 'curNZ' else ('peek', st[1], 'curZ')
                return st
            r2 = _ed0(base, e)
            if r2 is None:
                return None
            return ('peek', st[1], r2) if r2 in ('cur?', 'inner', 'curZ', 'curNZ') else r2
        return _ed0(st, e)
    before, at_exit, sin, bout = f.forward('cur?', on_event, on_edge, stop=(stop.bid, stop.idx) if stop is not None else None)
    for st in (at_exit if exit_check else ()):
        if st == 'out' or (isinstance(st, tuple) and st[0] in ('over', 'out')):
            problems.append((None, 'a path returns with the scan pointer possibly beyond the terminating NUL'))
    seen = set()
    for s, msg in problems:
        k = (s.key if s is not None else None, msg)
        if k in seen:
            continue
        seen.add(k)
        R.ob(rule, False, s if s is not None else f, '%s: %s' % (what, msg), key='scan:%s:%s' % (f.name, msg[:40]))
    adv = [s for s in f.stores() if s.ev['k'] == 'store' and ptr_pred(s.ev.get('lhs')) and s.ev.get('op') in ('++', '+=') and s.key in before]
    for s in adv:
        if not any(p[0] is not None and p[0].key == s.key for p in problems):
            R.ob(rule, True, s, '%s: this advance never steps past the terminating NUL (the byte stepped over is tested non-NUL before or right after)' % what, key='scan-ok:%s' % f.name)
    return len(adv)


def bounds(P, R):
    rf = P.need_fn('conf_read_file')
    al = [s for s in rf.stores() if (s.ev.get('rhs') or {}).get('callee') == 'xmalloc' and is_var(s.ev.get('lhs'))]
    ok = False
    if al:
        a = al[0].ev['rhs']['args'][0]
        buf = al[0].ev['lhs']['name']
        K = const_of(a['r']) if a.get('k') == 'bin' and a['op'] == '+' and on_path(a['l'], 'st_size') else None

        def off(ix):
            """index == st_size + j -> j"""
            if on_path(ix, 'st_size') and ix.get('k') == 'mem':
                return 0
            if ix.get('k') == 'bin' and ix['op'] == '+' and on_path(ix['l'], 'st_size') and const_of(ix['r']) is not None:
                return const_of(ix['r'])
            return None
        tail = {}
        for t in rf.stores():
            if t.ev['k'] == 'store' and t.ev['lhs'].get('k') == 'idx' and is_var(t.ev['lhs']['base'], buf):
                j = off(t.ev['lhs']['index'])
                if j is not None:
                    tail[j] = t
        rets = [t for t in rf.sites() if t.ev['k'] == 'ret' and is_var(t.ev.get('val'), buf)]
        ok = K is not None and K >= 1 and set(tail) == set(range(K)) and const_of(tail[K - 1].ev.get('rhs')) == 0 and bool(rets)
        if ok:
            for r in rets:
                for t in tail.values():
                    if not (rf.path_avoiding(None, lambda u, t=t: u.key == t.key, target=r.bid, from_entry=True) is None or any(u.key == t.key for u in rf.block_sites(r.bid)[:r.idx])):
                        ok = False
    sentinel = const_of(tail[K - 2].ev.get('rhs')) if ok and K >= 2 else None
    if sentinel == 0:
        sentinel = None
    R.ob('C14.BND.1', ok, al[0] if al else rf, 'the file buffer has size+K bytes, every byte after the file\'s contents is written and the last one is the NUL, before it is returned', key='file-buffer')
    if al:
        # what is returned is what was allocated (the caller frees it): the variable is never stepped or re-pointed
        moved = [t for t in rf.stores() if t.ev['k'] == 'store' and is_var(t.ev.get('lhs'), al[0].ev['lhs']['name']) and t.key != al[0].key]
        R.ob('C14.BND.1', not moved, moved[0] if moved else al[0], 'the pointer the file reader returns is the start of the block it allocated (the caller frees it)', key='file-buffer-base', nontrivial=bool(moved))
    rd = [s for s in rf.calls('fread')]
    R.ob('C14.BND.1', bool(rd) and on_path(rd[0].ev['args'][1], 'st_size') or (bool(rd) and on_path(rd[0].ev['args'][2], 'st_size')), rd[0] if rd else rf, 'at most size bytes are read into it', key='file-read', nontrivial=False)
    R.floor('C14.BND.1', 2)
    # BND.2: scanners
    ps = P.need_fn('conf_parse_string')
    # the validating scan: the loop whose condition tests *end against NUL
    endv = None
    for b in ps.blocks.values():
        c = (b.get('term') or {}).get('cond')
        if c is not None:
            from ..model import rel
            l, op, rr = rel(c, True)
            if isinstance(l, dict) and l.get('k') == 'un' and l['op'] == '*' and is_var(l['e']) and const_of(rr) == 0 and op == '!=':
                endv = l['e']['name']
    if endv is None:
        raise AnalysisBroken('quoted-string scan loop not found')
    # restrict to the first pass: from the first assignment of the scan variable to the allocation
    alloc = [s for s in ps.stores() if (s.ev.get('rhs') or {}).get('callee') == 'xmalloc']
    first_alloc = min(alloc, key=lambda s: s.line) if alloc else None
    n = scanner_typestate(ps, lambda e: is_var(e, endv), 'C14.BND.2', R, 'quoted-string scan', stop=first_alloc, last_before_nul=sentinel)
    ws = P.need_fn('conf_parse_whitespace')
    n += scanner_typestate(ws, lambda e: is_field(e, 'curr', 'conf_parse'), 'C14.BND.2', R, 'whitespace/comment skipper', last_before_nul=sentinel)
    # the decoder's buffer: scanned length + 1, one store per iteration step
    if first_alloc is not None:
        szs = [s for s in ps.stores() if s.ev['k'] == 'store' and is_field(s.ev['lhs'], 'size') and ps.before(s, first_alloc)]
        oksz = any(sx(s.ev['rhs']).replace(' ', '') in ('((%s+1)-start)' % endv, '(%s+1-start)' % endv) or
                   (s.ev['rhs'].get('k') == 'bin' and s.ev['rhs']['op'] == '-' and endv in vars_in(s.ev['rhs']) and any(const_of(x) == 1 for x in walk(s.ev['rhs']))) for s in szs)
        R.ob('C14.BND.2', oksz, szs[0] if szs else ps, 'the decode buffer is as long as the scanned text plus the terminator', key='decode-buffer')
        a = first_alloc.ev['rhs']['args'][0]
        R.ob('C14.BND.2', is_field(a, 'size'), first_alloc, 'and is allocated with exactly that size', key='decode-alloc', nontrivial=False)
        # that size is an upper bound only while every decoded byte costs at least one source byte: the buffer is filled
        # by single element stores, nothing appends to it wholesale (an expansion that inserts text of its own length)
        bv = root_var(first_alloc.ev['lhs'])
        if bv is not None:
            app = [t for t in ps.calls() if ps.before(first_alloc, t) and any(isinstance(x, dict) and x.get('k') == 'un' and x.get('op') == '&' and is_var(x.get('e'), bv['name']) for a_ in t.ev['args'] for x in walk(a_))]
            R.ob('C14.BND.2', not app, app[0] if app else first_alloc, 'the decode buffer grows by one element store per source byte: no call appends to %s' % bv['name'], key='decode-no-append',
                 detail=[t.loc for t in app] or None, nontrivial=bool(app))
    R.floor('C14.BND.2', 6)


def decoder_advance(P, R, consumed_rule='C14.BND.3'):
    """BND.3: in the second (decoding) pass over a quoted string, an escape consumes the backslash and the
    escaped character; every further byte it skips must have been tested to be a hex digit (hence neither
    the closing quote nor the NUL).  Total advance on the escape path <= 1 + number of bytes proven hex."""
    f = P.need_fn('conf_parse_string')
    # the decode loop: the loop whose body stores into the output buffer; its scan variable
    endv = None
    for b in f.blocks.values():
        c = (b.get('term') or {}).get('cond')
        if c is not None:
            from ..model import rel
            l, op, rr = rel(c, True)
            if isinstance(l, dict) and l.get('k') == 'un' and l['op'] == '*' and is_var(l['e']) and const_of(rr) == 92 and op == '==':
                endv = l['e']['name']
    if endv is None:
        R.broke('C14.BND.3: escape test of the string decoder not found')
        return
    start_edges = []
    for bid in f.reachable_blocks():
        for e in f.out[bid]:
            r = e.rel()
            if r and isinstance(r[0], dict) and r[0].get('k') == 'un' and r[0]['op'] == '*' and is_var(r[0]['e'], endv) and r[1] == '==' and const_of(r[2]) == 92:
                # only the decode pass (its block stores into the buffer somewhere downstream before the loop step)
                start_edges.append(e)

    def hexidx(r):
        l, op, rr = r
        if isinstance(l, dict) and l.get('k') == 'bin' and l['op'] == '&' and l['l'].get('k') == 'idx' and is_var(l['l']['base'], 'char_types') and const_of(rr) == 0:
            for x in walk(l['l']['index']):
                if x.get('k') == 'idx' and is_var(x['base'], endv) and const_of(x['index']) is not None:
                    return const_of(x['index']), op == '!='
        return None
    n = 0
    for e0 in start_edges:
        # is this the decode pass?  it must reach a store into a buffer before the scan variable's loop step
        resets = [t.bid for t in f.stores() if t.ev['k'] == 'store' and is_var(t.ev.get('lhs'), endv) and t.ev.get('op') == '=']
        region = f.reach([e0.dst], cut_blocks=resets)
        if not any(t.ev['k'] == 'store' and t.ev['lhs'].get('k') == 'idx' and on_path(t.ev['lhs'], 'vec') for b in region for t in f.block_sites(b)):
            continue

        # offsets (relative to the backslash) of the scan variable and of every pointer copied from it: an escape
        # decoder moved into a helper works on its own copy and hands the new position back
        def hexidx2(r, m):
            l, op, rr = r
            if isinstance(l, dict) and l.get('k') == 'bin' and l['op'] == '&' and l['l'].get('k') == 'idx' and is_var(l['l']['base'], 'char_types') and const_of(rr) == 0:
                for x in walk(l['l']['index']):
                    if x.get('k') == 'idx' and is_var(x['base']) and x['base']['name'] in m and const_of(x['index']) is not None:
                        return m[x['base']['name']] + const_of(x['index']), op == '!='
            return None

        def ptr_value(e, m):
            """offset denoted by a pointer expression over tracked pointers, or None"""
            if is_var(e) and e['name'] in m:
                return m[e['name']]
            if isinstance(e, dict) and e.get('k') == 'bin' and e.get('op') in ('+', '-'):
                a, c = ptr_value(e['l'], m), const_of(e['r'])
                if a is not None and isinstance(c, int):
                    return a + c if e['op'] == '+' else a - c
                a, c = ptr_value(e['r'], m), const_of(e['l'])
                if a is not None and isinstance(c, int) and e['op'] == '+':
                    return a + c
            return None

        def on_event(st, s):
            mt, hx, done = st
            ev = s.ev
            if done:
                return st
            m = dict(mt)
            # what the escape decodes into the output: the furthest byte (relative to the backslash) it reads for a store
            if ev['k'] == 'store' and (ev.get('lhs') or {}).get('k') == 'idx' and on_path(ev['lhs'], 'vec'):
                far = m.get('#read', -1)
                for x in walk(ev.get('rhs')):
                    if x.get('k') == 'idx' and is_var(x.get('base')) and x['base']['name'] in m and isinstance(const_of(x.get('index')), int):
                        far = max(far, m[x['base']['name']] + const_of(x['index']))
                    if x.get('k') == 'un' and x.get('op') == '*' and is_var(x.get('e')) and x['e']['name'] in m:
                        far = max(far, m[x['e']['name']])
                if far >= 0:
                    m['#read'] = far
                    return (tuple(sorted(m.items())), hx, done)
            if ev['k'] == 'store' and is_var(ev.get('lhs')):
                v = ev['lhs']['name']
                if v in m and ev.get('op') == '++':
                    m[v] += 1
                elif v in m and ev.get('op') == '--':
                    m[v] -= 1
                elif v in m and ev.get('op') in ('+=', '-=') and const_of(ev.get('rhs')) is not None:
                    m[v] += const_of(ev['rhs']) if ev['op'] == '+=' else -const_of(ev['rhs'])
                elif ev.get('op') == '=':
                    pv = ptr_value(ev.get('rhs'), m) if isinstance(ev.get('rhs'), dict) else None
                    if pv is not None:
                        m[v] = pv
                    elif v in m:
                        m[v] = 99
                elif v in m:
                    m[v] = 99
                m = {k: min(v2, 99) for k, v2 in m.items()}
                return (tuple(sorted(m.items())), hx, done)
            return st

        def on_edge(st, e):
            mt, hx, done = st
            if done:
                return st
            m = dict(mt)
            r = e.rel()
            if r:
                h = hexidx2(r, m)
                if h and h[1]:
                    hx = tuple(sorted(set(hx) | {h[0]}))   # offset relative to the backslash
                # back at the loop test (*end != '"'): the escape is over
                if isinstance(r[0], dict) and r[0].get('k') == 'un' and r[0]['op'] == '*' and is_var(r[0]['e'], endv) and const_of(r[2]) == 34:
                    return (mt, hx, True)
            return (mt, hx, done)
        # run from the escape edge
        init = (((endv, 0),), (), False)
        seen = set()
        work = [(e0.dst, init)]
        final = set()
        while work:
            b, st = work.pop()
            if (b, st) in seen:
                continue
            seen.add((b, st))
            for s in f.block_sites(b):
                st = on_event(st, s)
            for e in f.out[b]:
                st2 = on_edge(st, e)
                if st2[2]:
                    final.add(st2)
                else:
                    work.append((e.dst, st2))
        bad = []
        for mt, hx, done in final:
            adv = dict(mt).get(endv, 99)
            # adv includes the loop's own ++end: the escape itself may use 2 (backslash and escaped char)
            proven = 0
            k = 2
            while k in hx:
                proven += 1
                k += 1
            if adv > 2 + proven:
                bad.append((adv, hx))
        # ... nor fewer than it decoded: every byte read into the output is behind the scan position when the escape ends
        short = [(dict(mt).get(endv, 99), dict(mt).get('#read')) for mt, hx, done in final if dict(mt).get('#read') is not None and dict(mt).get(endv, 99) < dict(mt)['#read'] + 1]
        R.ob(consumed_rule, bool(final) and not short, P.relloc((f.blocks[e0.src].get('term') or {}).get('loc', '?')),
             'an escape consumes every byte it decodes%s' % ('' if not short else ' (a path reads up to offset %s behind the backslash but advances only %s: the digits of \\xNN are copied again as text)' % (short[0][1], short[0][0])),
             key='escape-consumed')
        R.obligations[-1]['function'] = f.name
        n += 1
        R.ob('C14.BND.3', bool(final) and not bad, P.relloc((f.blocks[e0.src].get('term') or {}).get('loc', '?')),
             'an escape never skips more bytes than the backslash, the escaped character and the bytes proven to be hex digits%s'
             % ('' if not bad else ' (a path advances %d with hex-proven offsets %s: the closing quote can be skipped)' % (bad[0][0], list(bad[0][1]))), key='escape-advance')
        R.obligations[-1]['function'] = f.name
    R.floor('C14.BND.3', 1)


def context_init(P, R):
    """MPT.2b: whatever conf_read frees at the end was set up in this call: on every path from the entry to
    the release of the file buffer, the parse context was cleared or the buffer pointer assigned."""
    cr = P.need_fn('conf_read')
    frees = [s for s in cr.calls('free') if any(is_field(x, 'data', 'conf_parse') for x in walk(s.ev['args'][0]))]
    for s in frees:
        def inits(t):
            ev = t.ev
            if ev['k'] == 'call' and ev.get('callee') == 'memset' and ev['args'] and ev['args'][0].get('k') == 'un' and ev['args'][0]['op'] == '&' and const_of(ev['args'][1]) == 0 \
                    and ev['args'][0].get('size') and const_of(ev['args'][2]) == ev['args'][0]['size']:
                return True
            return False
        p = cr.path_avoiding(None, inits, target=s.bid, from_entry=True)
        R.ob('C14.MPT.2', p is None, s, 'the parse context (and with it the buffer pointer freed here) is cleared at the start of every call, so a load that fails before reading the file frees nothing stale', key='context-cleared')
    statics = [t for t in cr.sites() if t.ev['k'] == 'decl' and t.ev.get('static') and 'conf_parse' in t.ev.get('t', '')]
    R.ob('C14.MPT.2', not statics or all(cr.path_avoiding(None, lambda t: t.ev['k'] == 'call' and t.ev.get('callee') == 'memset', target=f2.bid, from_entry=True) is None for f2 in frees), cr,
         'the parse context does not carry state from one load to the next', key='context-not-static', nontrivial=False)


def dangling_fields(P, R, rule='C14.OWN.2'):
    """A pointer that is released must not survive in a field of a longer-lived object: when `xfree(v)` is reached
    while a field (of a parameter-owned or file-scope object) still holds the same pointer as the local v, every
    path on to the function's exit re-assigns that field - otherwise whoever cleans the object up frees it again."""
    unit = P.need_fn('conf_read').unit
    n = 0
    for f in P.unit_fns(unit):
        frees = [s for s in f.calls() if s.ev.get('callee') in ('xfree', 'free', 'fclose', 'closedir', 'close') and s.ev['args'] and is_var(s.ev['args'][0]) and s.ev['args'][0].get('sc') == 'local']
        for v in sorted({s.ev['args'][0]['name'] for s in frees}):
            def fld(e):
                return isinstance(e, dict) and e.get('k') == 'mem' and root_var(e) is not None and (root_var(e).get('sc') in ('param', 'file_static', 'static_local', 'global') or root_var(e).get('t', '').endswith('*'))

            def on_event(st, s, v=v):
                al, dang = st
                ev = s.ev
                if ev['k'] == 'store' and ev.get('op') == '=':
                    lhs, rhs = ev['lhs'], ev.get('rhs') or {}
                    if is_var(lhs, v):
                        al2 = set()
                        if fld(rhs):
                            al2.add(sx(rhs))
                        if rhs.get('k') == 'bin' and rhs.get('op') == '=' and fld(rhs.get('l')):
                            al2.add(sx(rhs['l']))
                        return (frozenset(al2), dang)
                    if fld(lhs):
                        k = sx(lhs)
                        al2 = set(al) - {k}
                        # field = v, or the chained form field = (v = ...)
                        if is_var(rhs, v) or (rhs.get('k') == 'bin' and rhs.get('op') == '=' and is_var(rhs.get('l'), v)):
                            al2.add(k)
                        return (frozenset(al2), frozenset(set(dang) - {k}))
                if ev['k'] == 'call' and ev.get('callee') in ('xfree', 'free', 'fclose', 'closedir', 'close') and ev['args'] and is_var(ev['args'][0], v):
                    return (frozenset(), frozenset(set(dang) | set(al)))
                return st

            def on_edge(st, e, v=v):
                r = rules.edge_rel(e)
                if r and r[1] == '!=' and ((is_var(r[0], v) and fld(r[2])) or (is_var(r[2], v) and fld(r[0]))):
                    k = sx(r[2] if is_var(r[0], v) else r[0])
                    return (frozenset(set(st[0]) - {k}), st[1])
                return st
            before, at_exit, sin, bout = f.forward((frozenset(), frozenset()), on_event, on_edge)
            n += 1
            bad = sorted({k for st in at_exit for k in st[1]})
            # a non-local exit hands the object to the catcher just the same
            for lj in f.calls('longjmp'):
                bad = sorted(set(bad) | {k for st in before.get(lj.key, set()) for k in st[1]})
            site = [s for s in frees if s.ev['args'][0]['name'] == v][0]
            R.ob(rule, not bad, site, '%s: when %s is freed no field keeps the same pointer until the function returns%s' % (f.name, v, (' (still in %s)' % ', '.join(bad)) if bad else ''), key='dangling:%s:%s' % (f.name, v))
    R.floor(rule, 3, 'locals released in the configuration unit')


WIDE = ('long', 'unsigned long', 'size_t', '__off_t', 'off_t', 'ssize_t', 'long long', 'unsigned long long', 'uintmax_t', 'intmax_t', 'int64_t', 'uint64_t', '__off64_t')
NARROW = ('unsigned int', 'int', 'unsigned', 'uint32_t', 'int32_t', 'unsigned short', 'short')


def sizes_not_narrowed(P, R, rule='C14.BND.7'):
    """The size of a file is 64 bits wide; the allocator of this program takes 32.  Where a wide quantity that comes from
    outside (a member of a `struct stat`, the result of a read) is handed to a narrower parameter in the configuration
    unit, a test on the way to the call bounds it from above - otherwise a 4 GiB file asks for a 2-byte block and the read
    writes 4 GiB into it."""
    unit = P.need_fn('conf_read').unit
    n = 0
    for f in P.unit_fns(unit):
        for s in f.calls():
            ts = P.callees(s, False)
            if not ts:
                continue
            pi = ts[0].param_info
            for i, a in enumerate(s.ev['args']):
                if i >= len(pi) or not isinstance(a, dict):
                    continue
                at = a.get('ty') or a.get('t')
                if at not in WIDE or pi[i].get('t') not in NARROW:
                    continue
                srcs = [x for x in walk(a) if x.get('k') == 'mem' and x.get('rec') == 'stat']
                if not srcs:
                    continue
                gs = f.guards(s.bid)
                bounded = all(any(isinstance(g[0], dict) and sx(g[0]) == sx(x) and g[1] in ('<', '<=') for g in gs) or
                              any(isinstance(g[2], dict) and sx(g[2]) == sx(x) and g[1] in ('>', '>=') for g in gs) for x in srcs)
                n += 1
                R.ob(rule, bounded, s, 'in %s the %s value %s is known to fit before it is handed to the %s parameter of %s' % (f.name, at, sx(a), pi[i].get('t'), ts[0].name), key='narrowed-size:%s:%s' % (f.name, ts[0].name))
    R.floor(rule, 1, 'file sizes handed to the allocator')


def table_subscripts(P, R, rule='C14.BND.6'):
    """Every look-up in a fixed-size table made while a file (or a typed value from it) is parsed stays inside the table,
    whatever bytes the text holds: a table indexed by a character is read at an index the numeric analysis can bound on
    both sides (a `char` or an `int` loaded from one is negative for bytes >= 0x80 - a test against the table's length
    alone lets those read in front of it)."""
    from .. import numeric
    unit = P.need_fn('conf_read').unit
    n = 0
    for f in P.unit_fns(unit):
        exprs = [x for s in f.sites() for ex in rules.event_exprs(s.ev) for x in walk(ex)] + [x for b in f.blocks for x in walk(f.term_cond(b) or {})]
        # indexed by a value computed from the text (a local the scan loaded a byte into); a member that holds an enumerator
        # the code itself stored is another matter
        def from_text(ix):
            while isinstance(ix, dict) and ix.get('k') == 'cast':
                ix = ix.get('e')
            if isinstance(ix, dict) and ix.get('k') in ('un', 'idx') and 'char' in (ix.get('t') or ''):
                return True
            if not (is_var(ix) and ix.get('sc') in ('local', 'param')):
                return False
            if 'char' in (ix.get('t') or ''):
                return True
            # a local the scan loaded a byte into (`ch = *pos++`); a loop counter over a word list is not text
            for d in f.local_defs(ix['name']):
                v = d.ev.get('rhs') if d.ev['k'] == 'store' else d.ev.get('init')
                for x in walk(v or {}):
                    if not (isinstance(x, dict) and ((x.get('k') == 'un' and x.get('op') == '*') or x.get('k') == 'idx')):
                        continue
                    t_ = x.get('t') or ''
                    if 'char' in t_ and '*' not in t_:
                        return True
                    inner = x.get('e') if x.get('k') == 'un' else x.get('base')
                    if any(isinstance(y, dict) and y.get('k') == 'var' and (y.get('t') or '').replace('const ', '').strip() in ('char *', 'unsigned char *', 'signed char *') for y in walk(inner or {})):
                        return True
            return False
        tabs = [x for x in exprs if x.get('k') == 'idx' and is_var(x.get('base')) and isinstance(x['base'].get('arr'), int) and const_of(x.get('index')) is None and x['base']['name'] != 'char_types' and from_text(x.get('index'))]
        names = {x['base']['name'] for x in tabs}
        if not tabs:
            continue
        an = numeric.Analysis(f)
        if an.notes:
            raise AnalysisBroken('numeric analysis of %s did not converge: %s' % (f.name, an.notes))
        seen = set()
        for o in numeric.obligations(an):
            if o['kind'] != 'subscript' or o['expr'].split('[')[0] not in names:
                continue
            w = o['where']
            k = (o['expr'], getattr(w, 'key', str(w)))
            if k in seen:
                continue
            seen.add(k)
            n += 1
            R.ob(rule, o['ok'], w if hasattr(w, 'loc') else f, 'in %s the look-up %s stays inside the table: inferred index range [%s, %s], extent %d' % (f.name, o['expr'], o['lo'], o['hi'], o['extent']),
                 key='table:%s:%s' % (f.name, o['expr'].split('[')[0]))
    R.ob(rule, True, P.need_fn('conf_read'), 'fixed-size tables indexed by a computed value in the configuration unit: %d look-up(s)' % n, key='table:walked', nontrivial=False)
    R.floor(rule, 1)


def ctype_subscripts(P, R, rule='C14.BND.4'):
    """Every look-up in the character-class table made while a file is parsed is indexed by a byte (0..255): a text
    with a byte >= 0x80 must be rejected as a syntax error, not read the table at a sign-extended offset.  Decided by
    the numeric analysis on every function of the configuration unit that subscripts the table."""
    from .. import numeric
    unit = P.need_fn('conf_read').unit
    n = 0
    for f in P.unit_fns(unit):
        exprs = [x for s in f.sites() for ex in rules.event_exprs(s.ev) for x in walk(ex)] + [x for b in f.blocks for x in walk(f.term_cond(b) or {})]
        if not any(x.get('k') == 'idx' and is_var(x.get('base'), 'char_types') for x in exprs):
            continue
        an = numeric.Analysis(f)
        if an.notes:
            raise AnalysisBroken('numeric analysis of %s did not converge: %s' % (f.name, an.notes))
        seen = set()
        for o in numeric.obligations(an):
            if o['kind'] != 'subscript' or not o['expr'].startswith('char_types['):
                continue
            w = o['where']
            k = (o['expr'], getattr(w, 'key', str(w)))
            if k in seen:
                continue
            seen.add(k)
            n += 1
            R.ob(rule, o['ok'], w if hasattr(w, 'loc') else f, 'in %s the look-up %s stays inside the table: inferred index range [%s, %s], extent %d' % (f.name, o['expr'], o['lo'], o['hi'], o['extent']),
                 key='ctype:%s:%s' % (f.name, o['expr']))
    R.floor(rule, 3, 'character-table look-ups in the configuration parser')


FREES = ('xfree', 'free')


def freed_fields(P, R, rule='C14.OWN.3'):
    """A pointer member released in place (`xfree(obj->f)`) does not stay in the object: on every path to the exit the
    member is re-assigned, or the storage the object lives in is released too (the object itself, or the block it was
    carved from: `obj = blk + 1`).  If the object variable has been re-pointed at another (longer-lived) object before
    the release, nothing the function frees afterwards can make up for it.  Cleanup callbacks (functions installed in
    a container's cleanup slot) are the disposal itself and are exempt; stack structures go out of scope."""
    unit = P.need_fn('conf_read').unit
    exempt = set(P.slots().get('set::cleanup', ()))
    n = 0
    for f in P.unit_fns(unit):
        if f.name in exempt or f.key in exempt:
            continue
        sites = []
        for s in f.calls():
            if s.ev.get('callee') in FREES and s.ev['args']:
                a = s.ev['args'][0]
                while isinstance(a, dict) and a.get('castto') and a.get('k') == 'cast':
                    a = a.get('e')
                if isinstance(a, dict) and a.get('k') == 'mem' and a.get('arrow') and is_var(a.get('base')) and a['base'].get('sc') in ('local', 'param'):
                    sites.append(s)
        if not sites:
            continue

        def owner_of(rhs):
            vs = vars_in(rhs)
            if isinstance(rhs, dict) and rhs.get('k') in ('bin', 'cast', 'un') and len(vs) == 1:
                return list(vs)[0]
            return None

        def on_event(st, s):
            derived, dang = dict(st[0]), set(st[1])
            ev = s.ev
            if ev['k'] == 'store' and ev.get('op') == '=':
                lhs, rhs = ev['lhs'], ev.get('rhs') or {}
                if is_var(lhs):
                    v = lhs['name']
                    derived.pop(v, None)
                    o = owner_of(rhs)
                    if o and o != v:
                        derived[v] = o
                    # entries rooted at v can no longer be repaired through v
                    dang = {(k, None if root == v else root, own) for (k, root, own) in dang}
                elif lhs.get('k') == 'mem':
                    k = sx(lhs)
                    dang = {(k2, root, own) for (k2, root, own) in dang if not (k2 == k and root is not None)}
            if ev['k'] == 'call' and ev.get('callee') in FREES and ev['args']:
                a = ev['args'][0]
                if is_var(a):
                    dang = {(k, root, own) for (k, root, own) in dang if not (root == a['name'] or own == a['name'])}
                elif isinstance(a, dict) and a.get('k') == 'mem' and a.get('arrow') and is_var(a.get('base')):
                    v = a['base']['name']
                    dang.add((sx(a), v, derived.get(v)))
            return (tuple(sorted(derived.items())), frozenset(dang))
        before, at_exit, sin, bout = f.forward(((), frozenset()), on_event, None)
        bad = sorted({k for st in at_exit for (k, root, own) in st[1]})
        for lj in f.calls('longjmp'):
            bad = sorted(set(bad) | {k for st in before.get(lj.key, set()) for (k, root, own) in st[1]})
        n += 1
        R.ob(rule, not bad, sites[0], '%s: a member released in place is re-assigned, or its object released, before the function returns%s' % (f.name, (' (left dangling: %s)' % ', '.join(bad)) if bad else ''),
             key='freed-field:%s' % f.name)
    R.floor(rule, 2, 'functions releasing a member in place')


def error_branch_reads(P, R, rule='C14.NULL.1'):
    """What the error branches of conf_read read from the parse context was set for this load: a pointer field read
    on the branch for error code c is assigned before every longjmp that raises c (or in conf_read before anything
    that can raise c).  The context starts zeroed, so an unset field is a NULL handed to the formatter / libc."""
    cr = P.need_fn('conf_read')
    unit = cr.unit
    # error code -> longjmp sites
    throws = {}
    for f in P.unit_fns(unit):
        for s in f.calls('longjmp'):
            c = const_of(s.ev['args'][1]) if len(s.ev['args']) > 1 else None
            if isinstance(c, int):
                throws.setdefault(c, []).append(s)
    if not throws:
        raise AnalysisBroken('no longjmp sites in the configuration unit')

    def ptr_field_reads(f, ctxvar):
        out = []
        for s in f.sites():
            if s.ev['k'] != 'call':
                continue
            for a in s.ev['args']:
                for x in walk(a):
                    if x.get('k') == 'mem' and x.get('rec') == 'conf_parse' and '*' in x.get('t', '') and root_var(x) is not None and root_var(x)['name'] == ctxvar and s.ev.get('callee') not in ('xfree', 'free'):
                        out.append((s, x['field']))
        return out
    ctx = [t.ev['var'] for t in cr.sites() if t.ev['k'] == 'decl' and 'conf_parse' in t.ev.get('t', '')]
    if not ctx:
        raise AnalysisBroken('conf_read has no parse context')
    ctx = ctx[0]
    n = 0
    for b in cr.reachable_blocks():
        for e in cr.out[b]:
            if e.label != 'case' or not e.vs:
                continue
            codes = [c for c in e.vs if c != 0]
            if not codes:
                continue
            region = [x for x in cr.reach([e.dst]) if e in cr.dominating_edges(x)]
            reads = []
            for s in cr.sites():
                if s.bid in region and s.ev['k'] == 'call':
                    reads += [(s2, fl) for (s2, fl) in ptr_field_reads(cr, ctx) if s2.key == s.key]
                    # helpers handed the context
                    if any(a.get('k') == 'un' and a.get('op') == '&' and is_var(a.get('e'), ctx) for a in s.ev['args']):
                        for g in P.callees(s, False):
                            if g.unit == unit:
                                pi = [j for j, a in enumerate(s.ev['args']) if a.get('k') == 'un' and a.get('op') == '&' and is_var(a.get('e'), ctx)][0]
                                if pi < len(g.params):
                                    reads += ptr_field_reads(g, g.params[pi])
            for (s, fl) in reads:
                for c in codes:
                    for t in throws.get(c, []):
                        g = t.fn
                        def sets(u, fl=fl):
                            return u.ev['k'] == 'store' and any(x.get('k') == 'mem' and x.get('field') == fl and x.get('rec') == 'conf_parse' for x in [u.ev['lhs']] + [y for y in walk(u.ev.get('rhs') or {}) if y.get('k') == 'bin' and y.get('op') == '='] for x in ([x] if x.get('k') == 'mem' else [x.get('l') or {}]))
                        p = g.path_avoiding(None, sets, target=t.bid, from_entry=True)
                        n += 1
                        R.ob(rule, p is None, t, 'error %d is reported using the context field %s (read at %s): %s assigns it before raising the error' % (c, fl, s.loc, g.name), key='errfield:%s:%d:%s' % (fl, c, g.name))
    R.floor(rule, 1, 'system-error reports name the failing call')


def run(P, R, tier):
    # the merge moves nodes from the scratch tree into live sets: insertion must not rely on a node's old links
    from . import c19
    from ..report import Remap
    c19.link_insert(P, R, 'C14.LINK.1')
    # ... and removal of a leftover must leave both neighbours consistent for the next insertion
    c19.link_remove(P, R, 'C14.LINK.1')
    dangling_fields(P, R)
    freed_fields(P, R)
    rules.freed_elements_cut(P, R, 'C14.OWN.5', ('src/config.c', 'src/common.c'))
    R.floor('C14.OWN.5', 2, 'element frees')
    rules.iterate_while_removing(P, R, 'C14.UAF.1', ('src/config.c',))
    R.floor('C14.UAF.1', 2, 'walks whose body may dispose the current element')
    ctype_subscripts(P, R)
    # a node moved into the live tree must not keep a pointer into the scratch tree that is about to be freed
    from . import c15, c16
    c15.merge_details(P, Remap(R, {'C15.MPT.6': 'C14.OWN.4'}, keys=('parent-link', 'alias-refresh')))
    # every token loop of the parser leaves on end of input (a truncated file is reported, the parser does not spin)
    c16.lookahead(P, Remap(R, {'C16.LOOK.1': 'C14.MPT.4'}))
    error_branch_reads(P, R)
    decoder_advance(P, R)
    context_init(P, R)
    pc = phase_separation(P, R)
    merge_position(P, R, pc)
    bounded_recursion(P, R, pc)
    defaults_read_only(P, R)
    ownership(P, R)
    bounds(P, R)
    # the parser and the merge keep nothing from one load (or one entry, or one nested call) to the next
    rules.no_static_locals(P, R, 'C14.WMC.9', P.unit_fns(P.need_fn('conf_read').unit), 'configuration code')
    # "either succeeds or reports an error": a reload request always reaches the reader (a request that is silently
    # skipped - "the file looks unchanged" - reports nothing about a file that is broken)
    from . import c17 as _c17
    _c17.wiring(P, Remap(R, {'C17.WIRE.1': 'C14.WIRE.1'}, keys=('sigusr1-reload', 'sigusr1-armed')))
    # shared (round 9): a second and third reload request are served like the first (the signal event is persistent)
    from ..report import Remap as _Remap
    from . import c17 as _c17
    _c17.wiring(P, _Remap(R, {'C17.WIRE.1': 'C14.WIRE.2'}, keys=('sigusr1',)))
    # error messages of any length (a long path, a long value) are formatted from an intact argument list
    rules.va_list_once(P, R, 'C14.MPT.6')
    # a list in the file is appended to item by item: the vector it grows in really grows
    rules.vector_growth(P, R, 'C14.BND.5')
    table_subscripts(P, R)
    sizes_not_narrowed(P, R)
    return EXPLANATION, ASSUMPTIONS
