"""C08 - arbitrary input cannot crash or derail the daemon (necessary conditions).

Decided here: argument-vector discipline through the dispatch (NULLARG), the tokenizer's
bounded stores, bounded copies on the input path, EOF -> clean exit, the line buffer freed
exactly once with no later use, no use of a request after a call that may retire it, junk
lines inert.  Not decided: memory safety at large, termination, chunking independence."""
from ..facts import AnalysisBroken
from ..model import sx, walk, is_var, const_of, root_var, vars_in, on_path
from .. import rules, bnd, uar, core
from ..report import Remap

EXPLANATION = (
    'Static rules over the line reader iauth_read and everything it dispatches to: (NULLARG) every '
    'dereference of argv[k] and every pass of argv[k] to a parameter that is dereferenced without a null '
    'test (summaries computed through direct calls and function-pointer slots) is reached only with '
    'argc > k established on all paths; (BND.1) tokenizer stores argv[argc++] are bounded by the array '
    'extent with no increment between test and store; (BND.2) every copy sink in the protocol layer '
    'reachable from the reader matches one of the enumerated bounded idioms; (MPT.1) the read()==0 edge '
    'sets clean_exit and breaks the loop, and main returns success iff clean_exit; (MPT.2) the line '
    'buffer is freed exactly once per iteration and nothing derived from it is used afterwards; (UAR) no '
    'request pointer is used after a call that may retire it; (GRD.1) the dispatch is reached only with '
    'a freshly looked-up request or a deliberate NULL, and the switch has no emitting default; (WMC.1) the '
    'input buffer is only ever filled by evbuffer_read and drained by the line splitter; (MPT.3) the argument '
    'vector is NULL-terminated for the current line whenever a handler is dispatched; (TAB.1) each message\'s '
    'required word count is established before its parameters are used; (TMR.1/2) the request timer is created '
    'with the request and destroyed by the table\'s cleanup, and every removal disposes, so no timer fires on a '
    'freed request.  These are '
    'necessary conditions of the property; memory safety in general, termination and chunking '
    'independence are NOT decided.'
    ' Rounds 8-9: (OWN.1) the name handed to a module constructor is the module record\'s own copy; (ARITH.1) comparators cannot overflow; (MPT.6) a va_list is walked once; (BND.5) the program\'s own strlcpy keeps its contract.')
ASSUMPTIONS = [
    'clang 14 front end / CFG; compile commands synthesised from the Makefile fragments',
    'libc/libevent non-null and write models in sa/rules.py and sa/model.py',
    'evbuffer_readln returns a heap line owned by the caller; strtol/strchr results point into their argument',
]


def reader(P):
    return P.need_fn('iauth_read')


def find_vec(fn, P=None):
    """(argc, argv, extent) of the reader: the local pointer array filled by the tokenizer and its
    counter.  The tokenizer may live in the reader or in a helper that is handed the array."""
    argv = argc = None
    for s in fn.sites():
        ev = s.ev
        if ev['k'] == 'decl' and ev.get('array') and ev.get('t', '').startswith('char *['):
            argv = ev['var']
    if argv is None:
        raise AnalysisBroken('reader has no local argument vector')
    for s in fn.stores():
        lhs = s.ev.get('lhs')
        if lhs and lhs.get('k') == 'idx' and is_var(lhs['base'], argv):
            vs = [v for v in vars_in(lhs['index'])]
            if vs:
                argc = vs[0]
    # the counter the dispatch relies on is the one handed on together with the vector
    for s in fn.calls():
        if any(is_var(a, argv) for a in s.ev['args']):
            for a in s.ev['args']:
                if is_var(a) and a['name'] != argv and a.get('t', '') in ('size_t', 'int', 'unsigned int', 'unsigned long'):
                    argc = a['name']
    if argc is None:
        # filled by a helper: the counter is what the helper returns
        for s in fn.stores():
            rhs = s.ev.get('rhs') or {}
            if s.ev['k'] == 'store' and is_var(s.ev.get('lhs')) and rhs.get('k') == 'callref' and any(is_var(a, argv) for a in rhs.get('args', [])):
                argc = s.ev['lhs']['name']
    if argc is None:
        raise AnalysisBroken('reader never fills its argument vector')
    return argc, argv, [s.ev['array'] for s in fn.sites() if s.ev['k'] == 'decl' and s.ev.get('var') == argv][0]


def nullarg(P, R):
    fn = reader(P)
    argc, argv, extent = find_vec(fn)
    d = rules.Deref(P)
    n = rules.check_argvec(P, fn, argc, argv, d, R, 'C08.NULLARG.1')
    R.floor('C08.NULLARG.1', 8, 'dispatch sites using argv[k]')
    return n


def tokenizer(P, R):
    fn = reader(P)
    argc, argv, extent = find_vec(fn)
    cache = {}
    n = 0
    for s in fn.stores():
        lhs = s.ev.get('lhs')
        if not (lhs and lhs.get('k') == 'idx' and is_var(lhs['base'], argv)):
            continue
        n += 1
        m = rules.max_index_at_store(fn, s, lhs['index'], cache)
        ok = m is not None and m <= extent
        R.ob('C08.BND.1', ok, s, 'store %s: index bounded by %s, extent %d' % (sx(lhs), m if m is not None else 'nothing', extent),
             key='store:%s' % sx(lhs))
    # a tokenizer extracted into a helper: its stores through the vector parameter
    for s in fn.calls():
        for j, a in enumerate(s.ev['args']):
            if is_var(a, argv):
                for t in P.callees(s, False):
                    if j >= len(t.params):
                        continue
                    pv = t.params[j]
                    c2 = {}
                    for u in t.stores():
                        lhs = u.ev.get('lhs')
                        if u.ev['k'] == 'store' and lhs and lhs.get('k') == 'idx' and is_var(lhs['base'], pv):
                            n += 1
                            idi, why = bnd.classify_store(P, t, u, c2)
                            R.ob('C08.BND.1', bool(idi) and idi != 'skip', u, 'store %s in the tokenizer helper: %s' % (sx(lhs), ('idiom ' + idi + ' [' + why + ']') if idi else why), key='store:%s' % sx(lhs))
    R.floor('C08.BND.1', 3, 'tokenizer stores into argv')


def line_buffer_writes(P, R, rule='C08.WMC.2'):
    """The server's line reaches the handlers as it was received: between reading a line and dispatching it, the
    only bytes written into the line are the separators the tokenizer turns into terminators (a NUL stored through
    the scan pointer, inside the tokenizer loop).  A trailing argument (after ':') is therefore never edited."""
    fn = reader(P)
    argc, argv, extent = find_vec(fn)
    rl = [s for s in fn.calls('evbuffer_readln')]
    if not rl:
        raise AnalysisBroken('reader does not call evbuffer_readln')
    cut = {rl[0].bid}
    astores = [s for s in fn.stores() if s.ev['k'] == 'store' and (s.ev['lhs'] or {}).get('k') == 'idx' and is_var(s.ev['lhs']['base'], argv) and const_of(s.ev.get('rhs')) != 0]
    tok = set()
    for a in astores:
        fw = fn.reach([a.bid], cut_blocks=cut)
        for b in fw:
            if a.bid in fn.reach([b], cut_blocks=cut):
                tok.add(b)
    n = 0
    for s in fn.stores():
        ev = s.ev
        if ev['k'] != 'store':
            continue
        lhs = ev['lhs'] or {}
        through = None
        if lhs.get('k') == 'un' and lhs.get('op') == '*':
            through = lhs['e']
        elif lhs.get('k') == 'idx' and not isinstance(lhs['base'].get('arr'), int):
            through = lhs['base']
        if through is None:
            continue
        rv = root_var(through)
        if rv is None or rv.get('sc') not in ('local', 'param') or rv.get('t', '').replace('const ', '') != 'char *':
            continue
        n += 1
        ok = s.bid in tok and const_of(ev.get('rhs')) == 0 and ev.get('op') == '='
        R.ob(rule, ok, s, 'the store %s = %s into the received line is a separator terminated by the tokenizer (inside its loop: %s, value: %s)' %
             (sx(lhs), sx(ev.get('rhs')), s.bid in tok, sx(ev.get('rhs'))), key='line-write:%s' % ('tok' if ok else sx(lhs)))
    R.floor(rule, 1, 'the tokenizer terminates its tokens in place')


def drains_buffer(P, R, rule='C08.MPT.4'):
    """Chunking independence, structural part: a wake-up handles every complete line that is buffered - the line
    loop is only left when the line splitter has no further line (nothing re-arms the read event for leftovers,
    and leftovers are dropped at end of input)."""
    fn = reader(P)
    rl = [s for s in fn.calls('evbuffer_readln')]
    if not rl:
        raise AnalysisBroken('reader does not call evbuffer_readln')
    loop = {b for b in fn.reach([rl[0].bid]) if rl[0].bid in fn.reach([b])}
    if not loop:
        raise AnalysisBroken('the line splitter is not called in a loop')
    n = 0
    for b in sorted(loop):
        for e in fn.out[b]:
            if e.dst in loop or fn.blocks[e.dst].get('noreturn'):
                continue
            n += 1
            r = e.rel()
            ok = False
            if r and r[1] == '==' and const_of(r[2]) == 0:
                subj = r[0]
                txt = sx(subj)
                lv = None
                for t in fn.stores():
                    rhs = t.ev.get('rhs') or {}
                    if t.ev['k'] == 'store' and rhs.get('k') == 'callref' and rhs.get('callee') == 'evbuffer_readln' and is_var(t.ev.get('lhs')):
                        lv = t.ev['lhs']['name']
                ok = 'evbuffer_readln' in txt or (lv is not None and is_var(subj, lv))
            R.ob(rule, ok, fn, 'the line loop is left on %s: only "no further complete line" may end it' % e.describe(), key='loop-exit:%s' % ('readln' if ok else e.describe()))
    R.floor(rule, 1)


def line_splitting(P, R, rule='C08.TAB.2'):
    """Server lines end in LF, optionally preceded by CR: the splitter is asked for exactly that (EVBUFFER_EOL_CRLF).
    Splitting at a bare CR would turn the rest of a trailing free-text parameter into a line of its own (naming any
    client it likes); splitting at LF only would leave the CR glued to the last parameter of every CRLF line."""
    fn = reader(P)
    rl = [s for s in fn.calls('evbuffer_readln')]
    if not rl:
        raise AnalysisBroken('reader does not call evbuffer_readln')
    for s in rl:
        a = s.ev['args']
        mode = a[2] if len(a) > 2 else {}
        R.ob(rule, mode.get('k') == 'enum' and mode.get('name') == 'EVBUFFER_EOL_CRLF', s, 'input is split into lines at LF with an optional preceding CR (mode %s)' % sx(mode), key='eol-mode')
    R.floor(rule, 1)


def lookup_results_checked(P, R, rule='C08.NULL.2'):
    """A record obtained by a lookup (set_find) may be absent - a module loaded or configured after the client was
    announced has none - so every use of the result is dominated by its null test."""
    n = 0
    for f in P.fns.values():
        if not f.unit.startswith('modules/'):
            continue
        found = set()
        for s in f.sites():
            val = s.ev.get('rhs') if s.ev['k'] == 'store' else s.ev.get('init') if s.ev['k'] == 'decl' else None
            tgt = s.ev['lhs']['name'] if s.ev['k'] == 'store' and is_var(s.ev.get('lhs')) else s.ev.get('var') if s.ev['k'] == 'decl' else None
            if tgt and isinstance(val, dict) and val.get('k') == 'callref' and val.get('callee') == 'set_find':
                found.add(tgt)
        for v in sorted(found):
            if not all((d.ev.get('rhs') if d.ev['k'] == 'store' else d.ev.get('init') or {}) is None or ((d.ev.get('rhs') if d.ev['k'] == 'store' else d.ev.get('init')) or {}).get('callee') == 'set_find' for d in f.local_defs(v)):
                continue
            uses = []
            for s in f.sites():
                for ex in rules.event_exprs(s.ev):
                    for x in walk(ex):
                        if (x.get('k') == 'mem' and x.get('arrow') and is_var(x.get('base'), v)) or (x.get('k') == 'un' and x.get('op') == '*' and is_var(x.get('e'), v)):
                            uses.append(s)
            for bid, blk in f.blocks.items():
                c = (blk.get('term') or {}).get('cond')
                if isinstance(c, dict) and any(x.get('k') == 'mem' and x.get('arrow') and is_var(x.get('base'), v) for x in walk(c)):
                    uses.append(('term', bid))
            bad = None
            for u in uses:
                bid = u.bid if hasattr(u, 'bid') else u[1]
                if not any(is_var(g[0], v) and g[1] == '!=' and const_of(g[2]) == 0 for g in f.guards(bid)):
                    bad = u
                    break
            if uses:
                n += 1
                R.ob(rule, bad is None, (bad if hasattr(bad, 'bid') else f) if bad is not None else f, '%s: the record %s found by lookup is used only after it was tested non-null' % (f.name, v), key='lookup-null:%s:%s' % (f.name, v))
    R.floor(rule, 3)


def stats_are_write_only(P, R, rule='C08.WMC.3'):
    """Statistics describe what happened, they do not decide what happens: no branch of the decision modules reads a
    statistics counter (they drift - a re-announced id counts an allocation without a release - so a decision taken
    on them differs from one taken on the live table)."""
    n = 0
    bad = []
    for f in P.fns.values():
        if not f.unit.startswith('modules/'):
            continue
        for bid, blk in f.blocks.items():
            c = (blk.get('term') or {}).get('cond')
            if not isinstance(c, dict):
                continue
            for x in walk(c):
                rv = x if x.get('k') == 'var' else None
                if rv is not None and rv.get('name') == 'stats' and rv.get('sc') in ('file_static', 'global'):
                    bad.append((f, blk))
        n += 1
    for f, blk in bad:
        R.ob(rule, False, P.relloc((blk.get('term') or {}).get('loc', '?')), '%s branches on a statistics counter (%s)' % (f.name, sx((blk.get('term') or {}).get('cond'))), key='stats-branch:%s' % f.name)
        R.obligations[-1]['function'] = f.name
    R.ob(rule, True, reader(P), 'scanned the branch conditions of %d module functions for reads of the statistics counters: %d found' % (n, len(bad)), key='scan', nontrivial=False)


MIN_ARGC = {'C': 5, 'N': 2, 'P': 2, 'U': 3, 'n': 2, 'E': 3, 'M': 3, 'X': 4, 'x': 4, '?': 2}


def terminator_and_arity(P, R):
    """MPT.3: before any dispatch the slot after the last token is NULL (or the vector is full): a
    handler that is given argv[k] with argc == k must see NULL, not a pointer into an earlier, freed line.
    TAB.1: per IAuth message, the words the protocol requires are counted before they are used."""
    from .. import core
    fn = reader(P)
    argc, argv, extent = find_vec(fn)
    rd, disp = core.reader_dispatch(P)

    # state: 'open' | ('terminated', v) | ('full', v), v the counter the vector is terminated / full at
    counters = {argc}
    for s0 in fn.stores():
        l0 = s0.ev.get('lhs') or {}
        if l0.get('k') == 'idx' and is_var(l0['base'], argv):
            counters |= set(vars_in(l0['index']))

    def on_event(st, s):
        ev = s.ev
        if ev['k'] == 'store' and is_var(ev.get('lhs')) and ev.get('op') == '=' and is_var(ev.get('rhs')) and st != 'open' and ev['rhs']['name'] == st[1]:
            return (st[0], ev['lhs']['name'])      # the count is copied (helper's result handed to the caller)
        if ev['k'] == 'store' and is_var(ev.get('lhs')) and ev['lhs']['name'] in counters:
            return 'open'
        if ev['k'] == 'store' and ev['lhs'].get('k') == 'idx' and is_var(ev['lhs']['base'], argv):
            ix = ev['lhs']['index']
            if is_var(ix) and const_of(ev.get('rhs')) == 0:
                return ('terminated', ix['name'])
            if not (ix.get('k') == 'un' or is_var(ix)):
                return st
            return 'open'
        return st

    def on_edge(st, e):
        r = rules.edge_rel(e)
        if r and is_var(r[0]) and r[1] == '>=' and const_of(r[2]) is not None and const_of(r[2]) >= extent and r[0]['name'] in counters:
            return ('full', r[0]['name'])
        return st
    before, _, _, _ = fn.forward('open', on_event, on_edge)
    for s, h, vs in disp:
        if not any(x.get('k') == 'idx' and is_var(x['base'], argv) for a in s.ev['args'] for x in walk(a)) and not any(is_var(a, argv) for a in s.ev['args']):
            continue
        sts = before.get(s.key, set())
        R.ob('C08.MPT.3', bool(sts) and all(x != 'open' and x[1] == argc for x in sts), s, 'when %s is dispatched the argument vector is NULL-terminated for this line (states: %s)' % (h.name, sorted(map(str, sts))), key='terminated:%s' % h.name)
    R.floor('C08.MPT.3', 6)
    # arity table
    for s, h, vs in disp:
        for v in vs or []:
            need = MIN_ARGC.get(chr(v))
            if need is None:
                continue
            # the count established either in the reader before the call or at the top of the handler
            est = -1
            for g in fn.guards(s.bid):
                k = rules.lower_bound_from_rel(g, argc)
                if k is not None:
                    est = max(est, k)
            pi = [j for j, a in enumerate(s.ev['args']) if is_var(a, argc)]
            if pi and pi[0] < len(h.params):
                pc = h.params[pi[0]]
                # first use of the vector in the handler is dominated by the count test
                uses = [t for t in h.sites() if any(x.get('k') == 'idx' and is_var(x['base']) and x['base'].get('t', '').startswith('char *') and x['base']['name'] in h.params for ex in rules.event_exprs(t.ev) for x in walk(ex))]
                best = None
                for t in uses:
                    b = -1
                    for g in h.guards(t.bid):
                        k = rules.lower_bound_from_rel(g, pc)
                        if k is not None:
                            b = max(b, k)
                    best = b if best is None else min(best, b)
                if best is not None:
                    est = max(est, best)
            R.ob('C08.TAB.1', est + 1 >= need, s, 'message %s needs %d words; %d are established before its parameters are used' % (chr(v), need, est + 1), key='arity:%s' % chr(v))
    R.floor('C08.TAB.1', 9)


def eof_exit(P, R):
    fn = reader(P)
    # res = evbuffer_read(...)
    rd = [s for s in fn.calls('evbuffer_read')]
    if not rd:
        raise AnalysisBroken('reader does not call evbuffer_read')
    resvar = None
    for s in fn.stores():
        rhs = s.ev.get('rhs')
        if rhs and rhs.get('k') == 'callref' and rhs.get('callee') == 'evbuffer_read' and is_var(s.ev['lhs']):
            resvar = s.ev['lhs']['name']
    if resvar is None:
        raise AnalysisBroken('result of evbuffer_read is not kept')
    found = 0
    for bid in fn.reachable_blocks():
        for e in fn.out[bid]:
            r = rules.edge_rel(e)
            if r and is_var(r[0], resvar) and r[1] == '==' and const_of(r[2]) == 0:
                found += 1

                def sets_clean(s):
                    return (s.ev['k'] == 'store' and is_var(s.ev['lhs'], 'clean_exit')
                            and s.ev.get('op') == '=' and const_of(s.ev.get('rhs')) not in (None, 0))

                def breaks(s):
                    return rules.is_call(s, 'event_base_loopbreak') or rules.is_call(s, 'event_base_loopexit')
                for nm, pred in (('sets clean_exit', sets_clean), ('breaks the event loop', breaks)):
                    first = fn.block_sites(e.dst)
                    path = None
                    if not any(pred(s) for s in first):
                        start = first[-1] if first else None
                        if start is not None:
                            path = fn.path_avoiding(start, pred)
                        else:
                            path = [e.dst]
                    R.ob('C08.MPT.1', path is None, P.relloc((fn.blocks[bid].get('term') or {}).get('loc', '?')),
                         'end of input (%s == 0) %s before returning' % (resvar, nm), key='eof:' + nm,
                         detail=('path avoiding it: lines %s' % fn.path_lines(path)) if path else None)
                    R.obligations[-1]['function'] = fn.name
    if not found:
        R.broke('C08.MPT.1: no branch on %s == 0 after evbuffer_read' % resvar)
    # main: exit status is success iff clean_exit
    m = P.need_fn('main')
    def classify(r):
        l, op, rr = r
        if is_var(l, 'clean_exit') and const_of(rr) == 0 and op in ('==', '!='):
            return [('ce', op == '!=')]
        return []
    before = rules.atom_forward(m, classify)
    disp = [s for s in m.calls('event_base_dispatch')]
    after = [s for s in m.sites() if s.ev['k'] == 'ret' and disp and s.bid in m.reach([disp[0].bid]) and not (s.bid == disp[0].bid and s.idx < disp[0].idx)]
    bad = []
    good = 0
    for s in after:
        v = s.ev.get('val')
        v = m.expand_local(v, s) if isinstance(v, dict) else v
        if isinstance(v, dict) and v.get('k') == 'cond' and is_var(v['c'], 'clean_exit') and const_of(v['t']) == 0 and const_of(v['f']) not in (None, 0):
            good += 1
            continue
        c = const_of(v) if isinstance(v, dict) else None
        sts = [rules.facts_of(st) for st in before.get(s.key, set())]
        if isinstance(c, int) and sts and all(d.get('ce') is not None and (c == 0) == d['ce'] for d in sts):
            good += 1
            continue
        bad.append(s)
    R.ob('C08.MPT.1', good >= 1 and not bad, (bad[0] if bad else (after[0] if after else m)), 'main returns success exactly when clean_exit is set', key='main:exit-status')
    if disp:
        R.ob('C08.MPT.1', not bad, disp[0], 'every return after the event loop derives the status from clean_exit',
             key='main:returns-after-loop', detail=[b.loc for b in bad] or None)
    # writers of clean_exit only ever set it to 1
    for f in P.fns.values():
        for s in f.stores():
            if is_var(s.ev.get('lhs'), 'clean_exit'):
                R.ob('C08.MPT.1', s.ev.get('op') == '=' and const_of(s.ev.get('rhs')) == 1, s,
                     'clean_exit is only ever set to 1', key='clean_exit:writer', nontrivial=False)
    R.floor('C08.MPT.1', 5)


def line_lifetime(P, R):
    fn = reader(P)
    line = None
    for s in fn.stores():
        rhs = s.ev.get('rhs')
        if rhs and rhs.get('k') == 'callref' and rhs.get('callee') == 'evbuffer_readln' and is_var(s.ev['lhs']):
            line = s.ev['lhs']['name']
            alloc = s
    if line is None:
        raise AnalysisBroken('reader does not keep the result of evbuffer_readln')
    # aliases: variables that may point into the line
    alias = {line}
    changed = True
    while changed:
        changed = False
        for s in fn.sites():
            ev = s.ev
            if ev['k'] == 'call':
                if any(vars_in(a) & alias for a in ev['args'] if not (a.get('k') == 'un' and a['op'] == '&')):
                    for a in ev['args']:
                        # a pointer array handed to the same call may receive pointers into the line
                        if is_var(a) and a.get('arr') is not None and a.get('t', '').startswith('char *[') and a['name'] not in alias and P.callees(s, False):
                            alias.add(a['name'])
                            changed = True
                    for a in ev['args']:
                        if a.get('k') == 'un' and a['op'] == '&' and is_var(a['e']) and a['e']['name'] not in alias \
                                and a['e'].get('t', '').endswith('*'):
                            alias.add(a['e']['name'])
                            changed = True
            elif ev['k'] == 'store' and ev.get('rhs') is not None and vars_in(ev['rhs']) & alias:
                rv = root_var(ev['lhs'])
                if rv is not None and rv['name'] not in alias and ('*' in rv.get('t', '')):
                    alias.add(rv['name'])
                    changed = True
    problems = []

    def on_event(st, s):
        ev = s.ev
        if s.key == alloc.key:
            if st == 'owned':
                problems.append((s, 'line read again while the previous one is still owned (leak)'))
            return 'owned'
        if ev['k'] == 'call' and ev.get('callee') == 'free' and ev['args'] and is_var(ev['args'][0], line):
            if st == 'freed':
                problems.append((s, 'line freed twice'))
            if st == 'none':
                problems.append((s, 'free of a line that was not read'))
            return 'freed'
        if st == 'freed':
            used = set()
            for ex in rules.event_exprs(ev):
                used |= vars_in(ex) & alias
            if ev['k'] == 'store' and is_var(ev.get('lhs')) and ev['lhs']['name'] in alias:
                used.discard(ev['lhs']['name'])
                used |= vars_in(ev.get('rhs') or {}) & alias
            if used:
                problems.append((s, 'use of %s after the line was freed' % sorted(used)))
        return st

    def on_edge(st, e):
        r = rules.edge_rel(e)
        if r and is_var(r[0], line) and const_of(r[2]) == 0:
            if r[1] == '==':
                return 'none' if st == 'owned' else st
        return st

    before, at_exit, sin, bout = fn.forward('none', on_event, on_edge)
    for st in at_exit:
        if st == 'owned':
            problems.append((alloc, 'a path returns while still owning the line (leak)'))
    seen = set()
    for s, msg in problems:
        if (s.key, msg) in seen:
            continue
        seen.add((s.key, msg))
        R.ob('C08.MPT.2', False, s, msg, key='line:' + msg.split(' (')[0])
    frees = [s for s in fn.calls('free') if s.ev['args'] and is_var(s.ev['args'][0], line)]
    for s in frees:
        R.ob('C08.MPT.2', True, s, 'free(%s) reached only while the line is owned; aliases %s dead afterwards' % (line, sorted(alias - {line})),
             key='free-site')
    R.floor('C08.MPT.2', 1, 'free sites of the line buffer')


def _table_lookup(P, fn, callee):
    """callee is a function of the program that looks the request table up (a wrapper of set_find on it)"""
    t = P.direct_target(fn, callee) if callee else None
    if t is None:
        return False
    return any(c.ev['args'] and is_var(c.ev['args'][0], uar.TABLE) for c in t.calls('set_find'))


def junk_inert(P, R, rule='C08.GRD.1'):
    """GRD.1: dispatch calls receive either a freshly looked-up non-null request or a
    deliberate NULL; unknown ids leave the iteration before the dispatch."""
    fn = reader(P)
    reqvar = None
    for s in fn.stores():
        rhs = s.ev.get('rhs')
        if rhs and rhs.get('k') == 'callref' and is_var(s.ev['lhs']) and (rhs.get('callee') == 'set_find' or _table_lookup(P, fn, rhs.get('callee'))):
            reqvar = s.ev['lhs']['name']
            lookup = s
    if reqvar is None:
        raise AnalysisBroken('reader has no request lookup (set_find)')
    readln = [s for s in fn.stores() if (s.ev.get('rhs') or {}).get('callee') == 'evbuffer_readln']

    def on_event(st, s):
        ev = s.ev
        if readln and s.key == readln[0].key:
            return 'stale'
        if ev['k'] == 'store' and is_var(ev.get('lhs'), reqvar):
            if s.key == lookup.key:
                return 'looked-up'
            if const_of(ev.get('rhs')) == 0:
                return 'null'
            return 'other'
        return st

    def on_edge(st, e):
        r = rules.edge_rel(e)
        if r and is_var(r[0], reqvar) and const_of(r[2]) == 0 and st == 'looked-up':
            return 'found' if r[1] == '!=' else 'notfound'
        return st

    before, _, sin, bout = fn.forward('stale', on_event, on_edge)
    n = 0
    for s in fn.calls():
        if any(is_var(a, reqvar) for a in s.ev['args']) and s.ev.get('callee') not in ('set_find',) and s.key != lookup.key:
            sts = before.get(s.key, set())
            ok = bool(sts) and sts <= {'null', 'found'}
            n += 1
            R.ob(rule, ok, s, 'dispatch %s(%s...) receives a freshly looked-up request or a deliberate NULL (states: %s)'
                 % (s.ev.get('callee'), reqvar, sorted(sts)), key='dispatch:%s' % s.ev.get('callee'))
    R.floor(rule, 8, 'dispatch calls taking the request')
    # the deliberate NULL is for lines that are not about a known client: id -1 ("no client") and announcements; any
    # other id - negative ones included - is looked up, so that what was announced under it can be withdrawn again
    for ns in [s for s in fn.stores() if s.ev['k'] == 'store' and is_var(s.ev.get('lhs'), reqvar) and const_of(s.ev.get('rhs')) == 0 and s.ev.get('op') == '=']:
        for e in fn.inn[ns.bid]:
            r = rules.edge_rel(e)
            if not r:
                continue
            c = const_of(r[2])
            okr = (r[1] == '==' and c == -1 and is_var(r[0])) or (r[1] == '==' and c == ord('C'))
            R.ob(rule, okr, ns, 'the request is deliberately NULL only for id -1 or an announcement (edge %s)' % e.describe(), key='null-why:%s' % ('ok' if okr else e.describe()))
    # no emitting default in the dispatch switch
    sends = rules.May(P, lambda s: rules.is_call(s, 'iauth_send') or rules.is_call(s, 'fputs'))
    for bid in fn.reachable_blocks():
        outs = fn.out[bid]
        if not outs or not any(e.label == 'case' for e in outs):
            continue
        c = fn.term_cond(bid)
        if c is None or 'argv' not in sx(c):
            continue
        for e in outs:
            if e.label != 'default':
                continue
            emit = [s for s in fn.block_sites(e.dst) if sends.site_may(s)]
            R.ob(rule, not emit, P.relloc((fn.blocks[bid].get('term') or {}).get('loc', '?')),
                 'an unknown command letter produces no output', key='switch-default', detail=[s.loc for s in emit] or None)
            R.obligations[-1]['function'] = fn.name


def input_buffer(P, R):
    """WMC.1: bytes leave the input buffer only as complete lines.  Every call that is handed the
    input evbuffer (the global, or the reader's callback datum) is one of: the filler
    (evbuffer_read), the line splitter (evbuffer_readln), creation/registration/destruction."""
    fn = reader(P)
    allowed = {'evbuffer_read', 'evbuffer_readln', 'evbuffer_free', 'event_new', 'evbuffer_new'}
    # the buffer object: the evbuffer global of the reader's unit, and the reader's datum parameter
    names = {g for g, lst in P.globals.items() for (u, gd) in lst if u == fn.unit and 'struct evbuffer' in gd.get('t', '')}
    datum = fn.params[2] if len(fn.params) > 2 else None
    n = 0
    for f in P.unit_fns(fn.unit):
        for s in f.calls():
            hit = [a for a in s.ev['args'] if (is_var(a) and (a['name'] in names or (f is fn and a['name'] == datum)))]
            if not hit:
                continue
            n += 1
            cal = s.ev.get('callee')
            R.ob('C08.WMC.1', cal in allowed, s, 'input buffer handed to %s: input bytes leave the buffer only as complete lines (allowed: %s)'
                 % (cal, sorted(allowed)), key='inbuf:%s' % cal, nontrivial=False)
    R.floor('C08.WMC.1', 3, 'uses of the input evbuffer')


def slot_use_after_release(P, R, rule='C08.UAF.2'):
    """A service record is not touched after the call that may free it: a function that releases an element of the
    service table (frees `table.vec[i]`, directly or through a local) is a may-free for every local pointer its caller
    loaded from that table; behind the call such a local is not dereferenced any more (not even for a log line)."""
    def slot_expr(e):
        return isinstance(e, dict) and e.get('k') == 'idx' and on_path(e, 'vec') and root_var(e) is not None and root_var(e).get('sc') in ('file_static', 'global')
    freers = {}
    for f in P.fns.values():
        if not f.unit.startswith('modules/'):
            continue
        loc = {}
        for s in f.sites():
            ev = s.ev
            val = ev.get('init') if ev['k'] == 'decl' else ev.get('rhs') if ev['k'] == 'store' and ev.get('op') == '=' else None
            tgt = ev.get('var') if ev['k'] == 'decl' else (ev['lhs']['name'] if ev['k'] == 'store' and is_var(ev.get('lhs')) else None)
            if tgt and slot_expr(val):
                loc[tgt] = sx(root_var(val))
        for s in f.calls():
            if s.ev.get('callee') in ('xfree', 'free') and s.ev['args']:
                a = s.ev['args'][0]
                if slot_expr(a):
                    freers[f.key] = sx(root_var(a))
                elif is_var(a) and a['name'] in loc:
                    freers[f.key] = loc[a['name']]
        # ... or it is handed the address of the slot and frees what the slot holds (`srv = *slot; ... xfree(srv)`)
        if f.key not in freers and any(t.fn is f and (t.ev.get('lhs') or {}).get('k') == 'un' for t in core.slot_release_sites(P)) and any(s.ev.get('callee') in ('xfree', 'free') for s in f.calls()):
            freers[f.key] = 'iauth_xquery_services'
    n = 0
    for f in P.fns.values():
        if not f.unit.startswith('modules/'):
            continue
        loc = {}
        for s in f.sites():
            ev = s.ev
            val = ev.get('init') if ev['k'] == 'decl' else ev.get('rhs') if ev['k'] == 'store' and ev.get('op') == '=' else None
            tgt = ev.get('var') if ev['k'] == 'decl' else (ev['lhs']['name'] if ev['k'] == 'store' and is_var(ev.get('lhs')) else None)
            if tgt and slot_expr(val):
                loc[tgt] = sx(root_var(val))
        if not loc:
            continue
        for s in f.calls():
            ts = [t for t in P.callees(s, False) if t.key in freers and t.key != f.key]
            if not ts:
                continue
            table = freers[ts[0].key]
            vs = [v for v, tb in loc.items() if tb == table]
            uses = []
            after = f.reach([e.dst for e in f.out[s.bid]])
            for t in f.sites():
                if (t.bid == s.bid and t.idx > s.idx) or (t.bid in after and t.bid != s.bid):
                    if t.ev['k'] == 'store' and is_var(t.ev.get('lhs')) and t.ev['lhs']['name'] in vs:
                        continue
                    for ex in rules.event_exprs(t.ev):
                        for v in vs:
                            if rules.derefs_of(ex, v):
                                uses.append((t, v))
            # a re-load of the local from the table before the use makes it fresh again: only flag uses not preceded by one
            real = []
            for t, v in uses:
                reload_ = [u for u in f.stores() if u.ev['k'] == 'store' and is_var(u.ev.get('lhs'), v) and slot_expr(u.ev.get('rhs'))]
                if any(f.path_avoiding(s, lambda q, u=u: q.key == u.key, target=t.bid) is None for u in reload_):
                    continue
                real.append((t, v))
            n += 1
            R.ob(rule, not real, s, 'behind %s(...), which may free an element of %s, no pointer loaded from that table is dereferenced%s' % (ts[0].name, table, (' (%s at %s)' % (real[0][1], real[0][0].loc)) if real else ''),
                 key='slot-uaf:%s' % f.name)
    R.floor(rule, 1, 'calls that may free a service record')


def kept_names_are_owned(P, R, rule='C08.OWN.1'):
    """A module constructor may keep the name it is handed (iauth_class files it as the owner of its plug-in record, and
    the info replies read it on every `?` line for the rest of the run).  The texts of the configured module list do not
    live that long - a reload with a different list frees them - so what the loader hands to a constructor is the copy
    the module record itself owns (or the constructor copies what it keeps)."""
    keepers = []
    for k, g in sorted(P.fns.items()):
        if g.name != 'module_constructor' or not g.params:
            continue
        for s in g.stores():
            ev = s.ev
            if ev['k'] == 'store' and ev.get('op') == '=' and is_var(ev.get('rhs'), g.params[0]):
                rv = root_var(ev['lhs'])
                if rv is not None and rv.get('sc') not in ('local', 'param'):
                    keepers.append(s)
    ld = core.module_loader(P)
    ctor = None
    for s in ld.calls('dlsym'):
        a = s.ev['args']
        if len(a) > 1 and a[1].get('k') == 'str' and a[1].get('v') == 'module_constructor':
            ctor = s
    if ctor is None:
        raise AnalysisBroken('module_load does not look up module_constructor')
    calls = [s for s in ld.sites() if s.ev['k'] == 'call' and not s.ev.get('callee') and s.ev.get('fexpr') is not None and len(s.ev.get('args') or ()) == 1]
    if not calls:
        raise AnalysisBroken('module_load does not call the constructor it looked up')
    for c in calls:
        a = c.ev['args'][0]
        owned = isinstance(a, dict) and a.get('k') == 'mem' and a.get('rec') == 'module'
        if not owned and is_var(a) and a.get('sc') == 'local':
            sd = ld.single_def(a['name'])
            owned = bool(sd) and isinstance(sd[1], dict) and sd[1].get('k') == 'mem' and sd[1].get('rec') == 'module'
        R.ob(rule, owned or not keepers, c, 'the name handed to a module constructor is the module record\'s own copy (%s)' % (
            'no constructor keeps it' if not keepers else 'kept by %s' % ', '.join(sorted({P.relloc(k_.loc) for k_ in keepers}))), key='ctor-name-owned', nontrivial=bool(keepers))
    R.floor(rule, 1, 'constructor calls of the module loader')


def run(P, R, tier):
    kept_names_are_owned(P, R)
    input_buffer(P, R)
    nullarg(P, R)
    tokenizer(P, R)
    bnd.check_scope(P, R, 'C08.BND.2', bnd.reader_scope(P))
    eof_exit(P, R)
    line_lifetime(P, R)
    uar.check(P, R, 'C08.UAR.1')
    junk_inert(P, R)
    terminator_and_arity(P, R)
    line_buffer_writes(P, R)
    drains_buffer(P, R)
    line_splitting(P, R)
    lookup_results_checked(P, R)
    stats_are_write_only(P, R)
    slot_use_after_release(P, R)
    # the mode prefix of a PASS text is scanned with a pointer that never steps past the terminator
    from .c14 import scanner_typestate
    cp = P.fn('iauth_xquery_check_password')
    if cp is not None:
        pws = sorted({s.ev['lhs']['name'] for s in cp.stores() if s.ev['k'] == 'store' and s.ev.get('op') == '++' and is_var(s.ev.get('lhs')) and 'char' in s.ev['lhs'].get('t', '') and '*' in s.ev['lhs'].get('t', '')})
        for pv in pws:
            scanner_typestate(cp, lambda e, pv=pv: is_var(e, pv), 'C08.BND.4', R, 'PASS mode scanner (%s)' % pv, exit_check=False)
        R.floor('C08.BND.4', 1)
    # a timer that outlives its request fires on freed memory: the timer lives exactly as long as the request
    from . import c10
    cl = c10.cleanup_fn(P, Remap(R, {'C10.MPT.1': 'C08.TMR.1', 'C10.WIRE.1': 'C08.TMR.1'}))
    c10.timer_lifecycle(P, Remap(R, {'C10.WMC.2': 'C08.TMR.1'}), cl)
    c10.table_sites(P, Remap(R, {'C10.WMC.1': 'C08.TMR.2'}))
    # malformed replies are junk too: a reply naming no awaited service has no effect
    from . import c04
    R4 = Remap(R, {'C04.GRD.2': 'C08.GRD.2', 'C04.GRD.3': 'C08.GRD.2'})
    cl4 = c04.lookup_discipline(P, R4)
    c04.effects_guarded(P, R4, cl4)
    c04.lookup_skips(P, R4, cl4)
    # a text slice handed on starts inside the reply: its offset is covered by the bytes that were tested
    from . import c05
    c05.slices(P, Remap(R, {'C05.TAB.1': 'C08.TAB.3'}))
    # a service's account text is copied with its length limit and always terminated
    w5 = c05.account_writers(P, Remap(R, {}))
    c05.account_copy(P, Remap(R, {'C05.BND.1': 'C08.BND.3'}), w5)
    # a late reply for an earlier holder of an id is junk: instances are told apart by a serial that does not repeat
    c04.serial_writers(P, Remap(R, {'C04.WMC.2': 'C08.WMC.4'}), c04.reader_is_canonical(P))
    # an unrecognised reply text is dropped, not booked as the service's final answer
    from . import c02
    c02.release_recognised(P, R, cl4, 'C08.GRD.3')
    # the announced address is parsed by the daemon's own parser: every subscript and shift in it is in range
    from . import c13
    c13.numeric_rules(P, R, c13.scope(P), prefix='C08')
    # ... and it is parsed with a NULL prefix-length output, which the parser must treat as optional everywhere
    c13.optional_outputs(P, R, c13.scope(P), 'C08.NULL.3')
    # nothing outlives the line that produced it except what hangs off the request table: no handler parks a pointer
    # (to a request, a line, a word) in static storage for a later line to pick up after its target is gone
    from . import c07 as _c07
    _c07.storage_audit(P, Remap(R, {'C07.WMC.1': 'C08.WMC.5'}, keys=('static-write', 'named:')))
    # every complete line that was read is dispatched in this wake-up: none dropped, none left waiting for unrelated traffic
    from . import c03 as _c03
    _c03.reader_drains(P, R, 'C08.MPT.5')
    # shared (round 9): junk ids are looked up too - a comparator that overflows on them loses live requests
    from . import c19 as _c19
    _c19.comparators(P, R, 'C08.ARITH.1')
    # a long line is logged through the growing buffer: the argument list it is formatted from must still be intact
    rules.va_list_once(P, R, 'C08.MPT.6')
    # the bounded copies above go through strlcpy: where the program supplies its own, it keeps its promise
    from .. import bnd as _bndS
    _bndS.fallback_strlcpy(P, R, 'C08.BND.5')
    return EXPLANATION, ASSUMPTIONS
