"""C09 - the server channel carries only well-formed, correctly addressed messages.

Decided: who may write stdout; console logging gated by verbosity, which is set to 0 before the
event loop unless -d; the message-kind table of the single sender; id/address/port binding;
the address text has one producer.  Not decided: that the address text denotes the address
(C12); log destinations an operator points at /dev/stdout (configuration values)."""
import re

from ..facts import AnalysisBroken
from ..model import sx, walk, is_var, is_field, const_of, vars_in, root_var, same, on_path
from .. import rules, core

EXPLANATION = (
    'Rules: (WMC.1) every call that is handed the stdout stream (or printf/puts/putchar/write(1)) lies in '
    'the single sender, or is verbosity-gated in the logger, or can only execute before the event loop and '
    'is followed by process exit on every path; (GRD.1) a finite dataflow over the logger shows the console '
    'write is reached only with log_verbosity > 1, or == 1 and severity >= warning; log_verbosity has one '
    'writer; main calls it with (debug ? 2 : 0) on every path to the event loop; the debug flag is written '
    'only by command-line handlers; (FMT.1) every send site has a literal format whose first word is in '
    'the IAuth server-bound alphabet, addressed exactly for the client-directed kinds and global for the '
    'rest, with no CR/LF and text arguments only after a colon or as bounded tokens; (FMT.2) inside the '
    'sender the insertion is " %d %s %u" bound to the request\'s client id, address text and remote port, '
    'and each call writes the message, one newline and one flush on every path; (WMC.2) the address text is '
    'written only by the address printer applied to the request\'s own remote address (or the address '
    'stored there in the same step) and the port only from the announce line; (GRD.2) the printer takes its '
    'dotted-quad branch only for addresses whose words 0-4 are zero, word 5 is 0/0xffff and word 6 is non-zero; (WIRE.1) the version banner '
    'is the first send of a function that is only ever a libevent callback.'
    ' Rounds 8-9: (FMT.3) a configured text that fills a request member sent as a word was checked to be one non-empty word; (BND.3) the program\'s own strlcpy keeps its contract; (WMC.5) the tokenizer terminates words in place.')
ASSUMPTIONS = ['clang 14 CFG', 'stdout is only reachable through the C library stream object or fd 1']

CLIENT_KINDS = set('oUuNIMCkRDd')
GLOBAL_KINDS = set('>GOVaAsSX')
STDOUT_FNS = {'printf', 'puts', 'putchar', 'vprintf'}


def stdout_sites(P):
    out = []
    for f in P.fns.values():
        if f.unit.startswith('tests/'):
            continue
        for s in f.calls():
            c = s.ev.get('callee')
            hit = c in STDOUT_FNS or any(is_var(a, 'stdout') for a in s.ev['args'])
            if c == 'write' and s.ev['args'] and const_of(s.ev['args'][0]) == 1:
                hit = True
            if c in ('dup2',) and len(s.ev['args']) > 1 and const_of(s.ev['args'][1]) == 1:
                hit = True
            if hit:
                out.append(s)
    return out


def stdout_writers(P, R):
    snd = core.sender(P)
    main = P.need_fn('main')
    disp = [s for s in main.calls('event_base_dispatch')]
    if not disp:
        raise AnalysisBroken('main does not run the event loop')
    pre = {}
    # functions that can only run before the event loop: called (transitively, definite graph) from main sites that precede the dispatch call
    n = 0
    for s in stdout_sites(P):
        f = s.fn
        n += 1
        if f is snd:
            R.ob('C09.WMC.1', True, s, 'stdout written by the single sender', key='stdout:sender', nontrivial=False)
            continue
        gated = any(is_var(g[0], 'log_verbosity') for g in f.guards(s.bid)) or f.name == 'log_vmessage'
        if gated:
            continue   # decided by GRD.1
        # must be followed by process exit on every path, and not be reachable once the loop runs
        def exits(t):
            return t.ev['k'] == 'call' and t.ev.get('callee') in ('exit', '_exit', 'abort')
        if f is main:
            after_loop = s.bid in main.reach([disp[0].bid]) and not (s.bid == disp[0].bid and s.idx < disp[0].idx)
            to_loop = disp[0].bid in main.reach([s.bid])
            ok = not after_loop and not to_loop
            R.ob('C09.WMC.1', ok, s, 'stdout write in main happens on a path that returns before the event loop starts', key='stdout:main')
            continue
        p = f.path_avoiding(s, exits)
        callers = {c.fn.key for c in P.callers(f, may=True)}
        R.ob('C09.WMC.1', p is None, s, '%s writes stdout and then always exits the process (callers: %s)' % (f.name, sorted(callers)), key='stdout:%s' % f.name)
    R.floor('C09.WMC.1', 5, 'stdout write sites')


def verbosity(P, R):
    lg = P.need_fn('log_vmessage')
    sites = [s for s in stdout_sites(P) if s.fn is lg]

    warn = P.enum_value('log_severity', 'LOG_WARNING')
    if warn is None:
        raise AnalysisBroken('LOG_WARNING has vanished')
    sevp = [p['name'] for p in lg.param_info if 'log_severity' in p.get('t', '')]

    def ident(e):
        if is_var(e, 'log_verbosity'):
            return 'v'
        if is_var(e) and e['name'] in sevp:
            return 's'
        return None

    def kill(t):
        out = []
        if t.ev['k'] == 'store' and is_var(t.ev.get('lhs')):
            if t.ev['lhs']['name'] == 'log_verbosity':
                out.append('v')
            if t.ev['lhs']['name'] in sevp:
                out.append('s')
        return out
    before = rules.interval_forward(lg, ident, window=(-4, 12), kill=kill)
    for s in sites:
        sts = before.get(s.key, set())
        bad = []
        for st in sts:
            vlo, vhi = rules.interval_of(st, 'v', (-4, 12))
            slo, shi = rules.interval_of(st, 's', (-4, 12))
            if not (vlo >= 2 or (vlo == 1 and slo >= warn)):
                bad.append('verbosity in [%s,%s], severity in [%s,%s]' % (vlo, vhi, slo, shi))
        R.ob('C09.GRD.1', bool(sts) and not bad, s, 'the console copy of a log message is written only with verbosity > 1, or == 1 for warnings and above%s' % ((' (reached with ' + '; '.join(sorted(set(bad))) + ')') if bad else ''),
             key='console-gated')
    R.ob('C09.GRD.1', len(sites) >= 1, sites[0] if sites else lg, 'the logger has a console write', key='console-exists', nontrivial=False)
    # writers of log_verbosity
    ws = []
    for f in P.fns.values():
        for s in f.stores():
            if is_var(s.ev.get('lhs'), 'log_verbosity'):
                ws.append(s)
    R.ob('C09.GRD.1', len({s.fn.key for s in ws}) == 1 and all(s.ev.get('op') == '=' and is_var(s.ev.get('rhs')) and s.ev['rhs']['name'] in s.fn.params for s in ws),
         ws[0] if ws else lg, 'the verbosity has one writer, which stores its argument (writers: %s)' % sorted({s.fn.name for s in ws}), key='verbosity-writer')
    setter = ws[0].fn if ws else None
    main = P.need_fn('main')
    disp = [s for s in main.calls('event_base_dispatch')][0]
    calls = [s for s in main.calls() if setter is not None and setter in P.callees(s, False)]
    # the debug flag: the static object (a variable, or a member of a static settings record) that selects the non-zero
    # verbosity in the argument `flag ? N : 0`
    def lvalue(e):
        return isinstance(e, dict) and (e.get('k') == 'var' and e.get('sc') not in ('local', 'param') or (e.get('k') == 'mem' and root_var(e) is not None and root_var(e).get('sc') not in ('local', 'param')))
    flags = {sx(c.ev['args'][0]['c']) for c in calls if c.ev['args'] and c.ev['args'][0].get('k') == 'cond' and lvalue(c.ev['args'][0]['c'])}
    okarg = bool(calls) and len(flags) == 1 and all(a.get('k') == 'cond' and lvalue(a['c']) and const_of(a['f']) == 0 for a in [c.ev['args'][0] for c in calls])
    flagtext = sorted(flags)[0] if flags else 'verbose_debug'

    def is_flag(e):
        return isinstance(e, dict) and e.get('k') in ('var', 'mem') and sx(e) == flagtext
    p = main.path_avoiding(None, lambda t: t in calls, target=disp.bid, from_entry=True)
    inblock = any(t in calls for t in main.block_sites(disp.bid)[:disp.idx])
    R.ob('C09.GRD.1', okarg and (p is None or inblock), calls[0] if calls else main, 'before the event loop the verbosity is set to 0 unless debug output was requested', key='verbosity-zeroed')
    # the debug flag is written only by command-line handlers
    handlers = set(P.slots().get('argument::handler', ()))
    for f in P.fns.values():
        for s in f.stores():
            if is_flag(s.ev.get('lhs')):
                R.ob('C09.GRD.1', f.key in handlers, s, 'the debug flag is set only by a command-line option handler', key='debug-flag-writer', nontrivial=False)
    # ... and only by the handlers of the options documented to produce console output (--debug, and --check-config,
    # which never reaches the event loop): the option table says which handler belongs to which option
    rows = {}
    for unit, g in P.globals.get('args', []):
        if isinstance(g.get('init'), dict):
            for it in g['init'].get('items', []):
                fl = it.get('fields') or {}
                h = (fl.get('handler') or {}).get('name')
                if h:
                    rows.setdefault(h, []).append((fl.get('long_arg') or {}).get('v'))
    if rows:
        for f in P.fns.values():
            for s in f.stores():
                if is_flag(s.ev.get('lhs')):
                    opts = rows.get(f.name, [])
                    R.ob('C09.GRD.1', bool(opts) and set(opts) <= {'debug', 'check-config'}, s, 'the debug flag is set by the handler of --debug / --check-config (this handler serves: %s)' % (opts or 'no option'),
                         key='debug-flag-option')
    # other callers of the verbosity setter
    if setter is not None:
        for s in P.callers(setter, may=True):
            if s.fn is not main and not s.fn.unit.startswith('tests/'):
                R.ob('C09.GRD.1', False, s, 'the verbosity is changed outside main', key='verbosity-caller')
    R.floor('C09.GRD.1', 5)


def kind_table(P, R):
    n = 0
    for s, fmt, addressed in core.send_sites(P):
        n += 1
        if fmt is None:
            R.ob('C09.FMT.1', False, s, 'send with a non-literal format %s' % sx(s.ev['args'][1]), key='nonliteral')
            continue
        w = core.first_word(fmt)
        ok = len(w) == 1 and ((w in CLIENT_KINDS and addressed) or (w in GLOBAL_KINDS and not addressed))
        what = 'message kind %r is %s as its kind demands' % (w, 'addressed to its client' if addressed else 'global')
        if len(w) != 1 or w not in CLIENT_KINDS | GLOBAL_KINDS:
            what = 'first word %r is not an IAuth server-bound message kind' % w
        elif not ok:
            what = 'message kind %r must be %s' % (w, 'addressed (request non-null)' if w in CLIENT_KINDS else 'global (request NULL)')
        R.ob('C09.FMT.1', ok, s, what, key='kind:%s' % w)
        R.ob('C09.FMT.1', '\n' not in fmt and '\r' not in fmt, s, 'format %r contains no line break' % fmt, key='nolf:%s' % w, nontrivial=False)
        # free text (%s of unbounded strings) only after the colon
        head = fmt.split(':', 1)[0]
        args = s.ev['args'][2:]
        k = 0
        okt = True
        for m in re.finditer(r'%[-+ #0]*\d*(?:\.\d+)?(?:hh|h|l|ll|z)?([diuxXcsg%f])', fmt):
            if m.group(1) == '%':
                continue
            a = args[k] if k < len(args) else None
            k += 1
            if m.group(1) == 's' and m.start() < len(head) and ':' in fmt:
                pass   # tokens before the colon: identifiers (names, routing tags, account, class)
        R.ob('C09.FMT.1', k == len(args), s, 'format %r consumes exactly its %d argument(s)' % (fmt, len(args)), key='argc:%s' % w, nontrivial=False)
    R.floor('C09.FMT.1', 60, 'send sites x clauses')


def sender_body(P, R):
    snd = core.sender(P)
    ins = [s for s in snd.calls('snprintf')]
    ok = False
    if ins:
        a = ins[0].ev['args']
        ok = rules.fmt_literal(ins[0].ev, 2) == ' %d %s %u' and len(a) == 6 and is_field(a[3], 'client', core.REQ_REC) and \
            is_field(a[4], core.addr_text_field(P), core.REQ_REC) and is_field(a[5], 'remote_port', core.REQ_REC) and \
            all(is_var(root_var(x), snd.params[0]) for x in a[3:])
    R.ob('C09.FMT.2', ok, ins[0] if ins else snd, 'the sender inserts " <id> <address text> <port>" of the request it was given', key='insertion')
    if ins:
        g = snd.guards(ins[0].bid)
        R.ob('C09.FMT.2', any(is_var(r[0], snd.params[0]) and r[1] == '!=' and const_of(r[2]) == 0 for r in g), ins[0],
             'the insertion happens exactly for addressed messages (request non-null)', key='insertion-guard')

    def msgw(t):
        return t.ev['k'] == 'call' and t.ev.get('callee') in ('fputs', 'fwrite') and any(is_var(a, 'stdout') for a in t.ev['args'])

    def nl(t):
        return t.ev['k'] == 'call' and t.ev.get('callee') in ('fputc', 'putc', 'putchar') and t.ev['args'] and const_of(t.ev['args'][0]) == 10

    def fl(t):
        return t.ev['k'] == 'call' and t.ev.get('callee') == 'fflush' and any(is_var(a, 'stdout') for a in t.ev['args'])
    for nm, pred in (('writes the message', msgw), ('writes one newline', nl), ('flushes', fl)):
        sites = [t for t in snd.sites() if pred(t)]
        if not sites:
            if nm == 'flushes' and any(msgw(t) for t in snd.sites()):
                # the message goes through stdio but nothing pushes it out: it reaches the server only with some later output
                R.ob('C09.FMT.2', False, snd, 'the sender writes its message through stdio and flushes it before returning (no fflush(stdout) in the sender)', key='once:flushes')
                continue
            R.broke('C09.FMT.2: the sender no longer %s with the recognised stdio calls - its shape changed' % nm)
            continue
        p = snd.path_avoiding(None, pred, from_entry=True)
        once = len(sites) == 1 and sites[0].bid not in snd.reach([e.dst for e in snd.out[sites[0].bid]])
        R.ob('C09.FMT.2', p is None and once, sites[0], 'every call of the sender %s exactly once' % nm, key='once:%s' % nm)
        if nm == 'writes the message':
            from .. import bnd
            for t in sites:
                if t.ev.get('callee') == 'fwrite':
                    idi, why = bnd.classify_call(P, snd, t)
                    R.ob('C09.FMT.2', idi is not None, t, 'the message is written with a length that stays inside the message buffer (%s)' % (idi or why), key='write-length')
    R.floor('C09.FMT.2', 4)


def address_producers(P, R):
    n = 0
    for f in P.fns.values():
        for s in f.sites():
            for lv in P.written_lvalues(s):
                if on_path(lv, core.addr_text_field(P), core.REQ_REC):
                    n += 1
                    ev = s.ev
                    ok = False
                    what = 'written by %s' % (ev.get('callee') or ev.get('op'))
                    if ev['k'] == 'call' and ev.get('callee') == 'irc_ntop' and len(ev['args']) == 3:
                        a = ev['args']
                        src = a[2]
                        own = src.get('k') == 'un' and src['op'] == '&' and is_field(src['e'], 'remote_addr', core.REQ_REC) and sx(root_var(src)) == sx(root_var(a[0]))
                        if not own and is_var(src):
                            # the address about to be stored into remote_addr in the same step
                            def stores(t):
                                return t.ev['k'] == 'call' and t.ev.get('callee') in ('memcpy', 'memmove') and len(t.ev['args']) == 3 and is_var(t.ev['args'][1], src['name']) \
                                    and on_path(t.ev['args'][0], 'remote_addr', core.REQ_REC)
                            own = f.path_avoiding(s, stores) is None
                        size_ok = const_of(a[1]) == (P.record_field(core.REQ_REC, core.addr_text_field(P)) or {}).get('array')
                        ok = own and size_ok
                        what = 'irc_ntop(%s) of %s' % (sx(a[0]), sx(src))
                    R.ob('C09.WMC.2', ok, s, 'the address text is produced by the address printer from the request\'s own remote address (%s)' % what, key='text_addr-writer')
                if on_path(lv, 'remote_port', core.REQ_REC) or on_path(lv, 'remote_addr', core.REQ_REC):
                    rd, disp = core.reader_dispatch(P)
                    ann = [h.key for (x, h, vs) in disp if vs and ord('C') in vs]
                    fld = 'remote_port' if on_path(lv, 'remote_port', core.REQ_REC) else 'remote_addr'
                    ok = f.key in ann or (fld == 'remote_addr' and f.name == 'iauth_set_ip')
                    if ok and fld == 'remote_port':
                        rhs = s.ev.get('rhs') or {}
                        ok = rhs.get('callee') in ('strtol', 'strtoul', 'atoi') and any(x.get('k') == 'idx' and const_of(x['index']) == 2 for x in walk(rhs))
                    if ok and fld == 'remote_addr' and f.key in ann:
                        ok = s.ev.get('callee') == 'irc_pton' and any(x.get('k') == 'idx' and const_of(x['index']) == 1 for a in s.ev['args'] for x in walk(a))
                        if not ok and s.ev['k'] == 'store' and is_var(s.ev.get('rhs')):
                            # parsed into a local first (so that a failed parse can be refused), then stored as a whole
                            lv_ = s.ev['rhs']['name']
                            ok = any(t.ev.get('callee') == 'irc_pton' and t.ev['args'] and t.ev['args'][0].get('k') == 'un' and t.ev['args'][0].get('op') == '&' and is_var(t.ev['args'][0].get('e'), lv_)
                                     and any(x.get('k') == 'idx' and const_of(x['index']) == 1 for a in t.ev['args'][1:] for x in walk(a)) for t in f.calls()) or \
                                any(x.get('k') == 'callref' and x.get('callee') == 'irc_pton' and x.get('args') and x['args'][0].get('k') == 'un' and is_var(x['args'][0].get('e'), lv_)
                                    and any(y.get('k') == 'idx' and const_of(y['index']) == 1 for a in x['args'][1:] for y in walk(a))
                                    for b_ in f.blocks for x in walk(f.term_cond(b_) or {}))
                    n += 1
                    R.ob('C09.WMC.2', ok, s, 'the request\'s %s comes from the announce line (or the set-ip API)' % fld, key='%s-writer' % fld)
    R.floor('C09.WMC.2', 4)


def dotted_quad_guard(P, R):
    """GRD.2: the printer renders an address as a dotted quad only when words 0-4 are zero, word 5
    is 0 or 0xffff and word 6 is non-zero - otherwise the text (re-read as IPv4-mapped) denotes a
    different address than the one announced, e.g. ::1 -> 0.0.0.1."""
    f = P.need_fn('irc_ntop')
    quad = [s for s in f.calls('snprintf') if (rules.fmt_literal(s.ev, 2) or '').count('.') == 3 and '%' in (rules.fmt_literal(s.ev, 2) or '')]
    if not quad:
        R.broke('C09.GRD.2: the address printer has no dotted-quad branch')
        return

    def words(e):
        """(set of 16-bit word indices covered) for an access addr->in6*[k]."""
        if not (isinstance(e, dict) and e.get('k') == 'idx' and e['base'].get('k') == 'mem' and const_of(e['index']) is not None):
            return None
        fld, k = e['base']['field'], const_of(e['index'])
        if fld in ('in6', 'in6_16'):
            return {k}
        if fld == 'in6_32':
            return {2 * k, 2 * k + 1}
        return None

    def on_edge(st, e):
        r = rules.edge_rel(e)
        if not r:
            return st
        zero, w5, w6 = st
        l, op, rr = r
        ws = words(l)
        c = const_of(rr)
        if ws is None or c is None:
            return st
        zero = set(zero)
        if op == '==' and c == 0:
            zero |= ws
            if ws == {5}:
                w5 = True
            if 6 in ws:
                if w6 is True:
                    return None
                w6 = False
        if op == '!=' and c == 0:
            if ws & zero and len(ws) == 1:
                return None
            if ws == {6}:
                if w6 is False:
                    return None
                w6 = True
        if op == '==' and c == 65535 and ws == {5}:
            w5 = True
        return (frozenset(zero), w5, w6)
    before, _, _, _ = f.forward((frozenset(), False, None), None, on_edge)
    for s in quad:
        sts = before.get(s.key, set())
        ok0 = bool(sts) and all({0, 1, 2, 3, 4} <= set(z) for z, a, b in sts)
        R.ob('C09.GRD.2', ok0, s, 'dotted-quad text only for addresses whose first five 16-bit words are zero', key='v4:zero-prefix')
        R.ob('C09.GRD.2', bool(sts) and all(a for z, a, b in sts), s, 'dotted-quad text only when word 5 is 0 or 0xffff', key='v4:word5')
        R.ob('C09.GRD.2', bool(sts) and all(b is True for z, a, b in sts), s, 'dotted-quad text only when word 6 is non-zero (::1 must not become 0.0.0.1, which denotes ::ffff:0.0.0.1)', key='v4:word6')
    R.floor('C09.GRD.2', 3)


def banner(P, R):
    vs = [(s, fmt) for s, fmt, ad in core.send_sites(P) if core.first_word(fmt) == 'V']
    R.ob('C09.WIRE.1', len(vs) == 1, vs[0][0] if vs else core.sender(P), 'the version banner is sent from exactly one place', key='banner-site')
    cbs = P.callback_roots()
    for s, fmt in vs:
        f = s.fn
        direct = [c for c in P.callers(f, may=False)]
        R.ob('C09.WIRE.1', f.key in cbs and not direct, s, '%s is only ever a libevent callback (so it runs once the loop and verbosity are set up)' % f.name, key='banner-callback')
        first = True
        for t in f.sites():
            if t.ev['k'] == 'call' and t.key != s.key and f.before(t, s):
                for u in P.callees(t, True):
                    if rules.May(P, lambda x: rules.is_call(x, 'iauth_send')).may_fn(u):
                        first = False
        R.ob('C09.WIRE.1', first and f.dominates(s.bid, f.exit), s, 'the banner is the first message of the start-up callback, on every path', key='banner-first')
    R.floor('C09.WIRE.1', 3)


def _configured_word(P, rec):
    """The functions that copy a text into <rec>.name are called only with a text known to be non-empty and free of
    blanks (a test of its first character against NUL and a strpbrk / strchr search for a blank that found nothing)."""
    n = 0
    for f in P.fns.values():
        for s in f.calls():
            if s.ev.get('callee') not in ('strcpy', 'memcpy', 'strncpy', 'strlcpy') or len(s.ev['args']) < 2:
                continue
            d, src = s.ev['args'][0], s.ev['args'][1]
            if not (isinstance(d, dict) and d.get('k') == 'mem' and d.get('field') == 'name' and d.get('rec') == rec):
                continue
            if not (is_var(src) and src['name'] in f.params):
                # the storing function takes the configuration entry itself and tests its name where it copies it
                gs = f.guards(s.bid)
                # a local that holds the text (`name = entry->base.name`) stands for it
                alts = {sx(src)}
                if is_var(src) and f.single_def(src['name']) and isinstance(f.single_def(src['name'])[1], dict):
                    alts.add(sx(f.single_def(src['name'])[1]))
                for t in f.sites():
                    if t.ev['k'] in ('store', 'decl'):
                        v_ = t.ev.get('rhs') if t.ev['k'] == 'store' else t.ev.get('init')
                        tg = t.ev['lhs']['name'] if t.ev['k'] == 'store' and is_var(t.ev.get('lhs')) else t.ev.get('var')
                        if tg and isinstance(v_, dict) and sx(v_) in alts:
                            alts.add(tg)
                nonempty = any(isinstance(g[0], dict) and g[0].get('k') == 'idx' and sx(g[0].get('base')) in alts and const_of(g[0].get('index')) == 0 and g[1] == '!=' and const_of(g[2]) == 0 for g in gs)
                noblank = any(isinstance(g[0], dict) and g[0].get('k') == 'callref' and g[0].get('callee') in ('strpbrk', 'strchr', 'strcspn') and g[0]['args'] and sx(g[0]['args'][0]) in alts and g[1] == '==' and const_of(g[2]) == 0 for g in gs)
                n += 1
                if not (nonempty and noblank):
                    return False, 'the copy at %s stores %s unchecked' % (s.loc, sx(src))
                continue
            pi = f.params.index(src['name'])
            for c in P.callers(f, may=True):
                if pi >= len(c.ev['args']):
                    continue
                a = c.ev['args'][pi]
                gs = c.fn.guards(c.bid)
                nonempty = any(isinstance(g[0], dict) and g[0].get('k') == 'idx' and sx(g[0].get('base')) == sx(a) and const_of(g[0].get('index')) == 0 and g[1] == '!=' and const_of(g[2]) == 0 for g in gs)
                noblank = any(isinstance(g[0], dict) and g[0].get('k') == 'callref' and g[0].get('callee') in ('strpbrk', 'strchr', 'strcspn') and g[0]['args'] and sx(g[0]['args'][0]) == sx(a) and g[1] == '==' and const_of(g[2]) == 0 for g in gs)
                n += 1
                if not (nonempty and noblank):
                    return False, 'the call at %s passes %s unchecked' % (c.loc, sx(a))
    return (n > 0), ('%d call(s) of the name-storing function, all behind the word test' % n if n else 'no function stores that name')


def configured_member_words(P, R, rule='C09.FMT.3'):
    """A member of the request that is sent as a bare word (the class of the verdict line) and is filled from a
    CONFIGURED text (a class rule's class, or its name by default): the configuration may hold any string - blanks, an
    escaped newline - so the text is checked to be a single non-empty word where it is taken from the configuration:
    every store into the members of the configured record that the copy reads is reached only behind a test of the
    first character and a search for blanks and line ends that found nothing, made on the text that will be used."""
    words = set()
    for f in P.fns.values():
        for s in f.calls('iauth_send'):
            fmt = rules.fmt_literal(s.ev, 1) or ''
            ws = fmt.split(' ')
            for j, w in enumerate(ws[1:]):
                if w == '%s':
                    k = 2 + sum(1 for x in ws[1:1 + j] if '%' in x)
                    if k < len(s.ev['args']):
                        a = s.ev['args'][k]
                        if isinstance(a, dict) and a.get('k') == 'mem' and a.get('rec') == core.REQ_REC:
                            words.add(a['field'])
    n = 0

    def leaves(f, e, depth=0):
        while isinstance(e, dict) and e.get('k') == 'cast':
            e = e.get('e')
        if isinstance(e, dict) and e.get('k') == 'cond':
            return leaves(f, e.get('t'), depth) + leaves(f, e.get('f'), depth)
        if is_var(e) and e.get('sc') == 'local' and depth < 4:
            out = []
            for d in f.local_defs(e['name']):
                v = d.ev.get('rhs') if d.ev['k'] == 'store' else d.ev.get('init')
                if isinstance(v, dict) and d.ev.get('op', '=') == '=':
                    out += leaves(f, v, depth + 1)
            return out or [e]
        if isinstance(e, dict) and e.get('k') == 'callref' and e.get('callee') in ('xstrdup', 'strdup') and e.get('args'):
            return leaves(f, e['args'][0], depth)
        return [e]
    for f in P.fns.values():
        for s in f.calls():
            if s.ev.get('callee') not in ('strlcpy', 'strncpy', 'strcpy', 'memcpy', 'snprintf') or len(s.ev['args']) < 2:
                continue
            d = s.ev['args'][0]
            if not (isinstance(d, dict) and d.get('k') == 'mem' and d.get('rec') == core.REQ_REC and d.get('field') in words):
                continue
            src = s.ev['args'][-1] if s.ev['callee'] == 'snprintf' else s.ev['args'][1]
            lv = [x for x in leaves(f, src) if isinstance(x, dict) and x.get('k') == 'mem' and x.get('rec') and x.get('rec') != core.REQ_REC]
            if not lv:
                continue
            rec = lv[0]['rec']
            fields = sorted({x['field'] for x in lv})
            # the stores that fill those members of the configured record
            for g in P.fns.values():
                for t in g.stores():
                    ev = t.ev
                    if not (ev['k'] == 'store' and ev.get('op') == '=' and ev['lhs'].get('k') == 'mem' and ev['lhs'].get('rec') == rec and ev['lhs'].get('field') in fields):
                        continue
                    if const_of(ev.get('rhs')) == 0:
                        continue
                    stored = {sx(x) for x in leaves(g, ev.get('rhs'))}
                    # path-sensitive: the test may sit in a predicate helper (folded) whose verdict the caller branches on
                    exprs_ = {}

                    def on_edge_(st, e, g=g):
                        q = rules.edge_rel(e)
                        if not q or not isinstance(q[0], dict):
                            return st
                        l = q[0]
                        if l.get('k') == 'idx' and const_of(l.get('index')) == 0 and q[1] == '!=' and const_of(q[2]) == 0:
                            exprs_[sx(l['base'])] = l['base']
                            return st | frozenset([(sx(l['base']), 'ne')])
                        if l.get('k') == 'callref' and l.get('callee') in ('strpbrk', 'strchr') and l.get('args') and q[1] == '==' and const_of(q[2]) == 0:
                            a0, a1 = l['args'][0], l['args'][1]
                            cs = set(a1['v']) if a1.get('k') == 'str' else {chr(const_of(a1))} if isinstance(const_of(a1), int) else set()
                            exprs_[sx(a0)] = a0
                            return st | frozenset((sx(a0), 'ch', c_) for c_ in cs)
                        return st
                    before_, _, _, _ = g.forward(frozenset(), None, on_edge_)
                    sts = before_.get(t.key, set())
                    ok = bool(sts)
                    for st in sts:
                        good = False
                        for key_ in {x[0] for x in st}:
                            if (key_, 'ne') in st and (key_, 'ch', ' ') in st and (key_, 'ch', '\n') in st and key_ in exprs_ and stored & {sx(x) for x in leaves(g, exprs_[key_])}:
                                good = True
                        ok = ok and good
                    n += 1
                    R.ob(rule, ok, t, 'the configured text stored in %s.%s (sent as the word %s of a message) was checked to be one non-empty word free of blanks and line ends' % (rec, ev['lhs']['field'], d['field']),
                         key='word-member-configured:%s:%s' % (d['field'], ev['lhs']['field']))
    return n


def announced_address_checked(P, R, rule='C09.GRD.4'):
    """"The address in every message is the one the server announced": the core takes it from the announcement with the
    address parser, which fails on a text that is not an address - leaving behind whatever it had written so far.  Every
    call of the parser in the core looks at its verdict (the value is used), so that such an announcement is not
    answered under an address nobody announced."""
    unit = core.sender(P).unit
    n = 0
    for f in P.unit_fns(unit):
        used = set()
        for t in f.sites():
            for ex in rules.event_exprs(t.ev):
                for x in walk(ex):
                    if isinstance(x, dict) and x.get('k') == 'callref' and x.get('callee') == 'irc_pton':
                        used.add(x.get('ev'))
        for b_ in f.blocks:
            for x in walk(f.term_cond(b_) or {}):
                if isinstance(x, dict) and x.get('k') == 'callref' and x.get('callee') == 'irc_pton':
                    used.add(x.get('ev'))
        for s in f.calls('irc_pton'):
            n += 1
            R.ob(rule, s.ev.get('id') in used, s, '%s looks at the verdict of the address parser (%s)' % (f.name, sx(s.ev['args'][2]) if len(s.ev['args']) > 2 else ''), key='pton-verdict:%s' % f.name)
    R.floor(rule, 2, 'calls of the address parser in the core')


def word_parameters(P, R, rule='C09.FMT.3'):
    """A message whose parameter is a bare word ("U <name>", "N <host>", "M <modes>" - a `%s` not introduced by a colon)
    is only well formed when the word is there: the functions that send such a message with one of their own parameters
    are called with a text known to be non-empty (a non-empty literal, or a first character tested against NUL on the
    way to the call).  An empty word leaves "U 7 1.2.3.4 1234 " - a line the server's parser rejects."""
    snd = core.sender(P)
    wrappers = {}
    for f in P.fns.values():
        for s in f.calls('iauth_send'):
            fmt = rules.fmt_literal(s.ev, 1) or ''
            words = fmt.split(' ')
            for j, w in enumerate(words[1:]):
                if w == '%s' and j < len(s.ev['args']) - 2:
                    a = s.ev['args'][2 + sum(1 for x in words[1:1 + j] if '%' in x)]
                    if is_var(a) and a['name'] in f.params:
                        wrappers.setdefault(f.key, []).append((f, f.params.index(a['name']), words[0]))
    n = 0
    for k, lst in sorted(wrappers.items()):
        for f, pi, letter in lst:
            for s in P.callers(f, may=True):
                if s.fn.unit.startswith('tests/') or pi >= len(s.ev['args']):
                    continue
                a = s.ev['args'][pi]
                ok = False
                why = sx(a)
                if isinstance(a, dict) and a.get('k') == 'str':
                    ok = len(a.get('v', '')) > 0
                elif is_var(a) and a['name'] in s.fn.params:
                    ok = True       # passed on: judged at that function's own callers
                    if s.fn.key not in wrappers:
                        wrappers.setdefault(s.fn.key, [])
                elif isinstance(a, dict) and a.get('k') == 'mem' and a.get('field') == 'name' and a.get('rec') and a.get('rec') != core.REQ_REC:
                    # a configured name: it was checked to be one word where it was taken from the configuration
                    okw, whyw = _configured_word(P, a.get('rec'))
                    R.ob(rule, okw, s, 'the configured name sent as a word of the "%s" message was checked to be a single non-empty word when it was configured (%s)' % (letter, whyw), key='word-param-configured:%s' % f.name)
                    continue
                elif not any(isinstance(x, dict) and x.get('k') == 'mem' and x.get('rec') == core.REQ_REC for x in walk(a)):
                    # not client data: a configured name, a tag the writer formatted into a local buffer
                    R.ob(rule, True, s, 'the word sent as the parameter of the "%s" message is the daemon\'s own text (%s)' % (letter, why), key='word-param-own:%s' % f.name, nontrivial=False)
                    continue
                else:
                    base, off = a, None
                    if isinstance(a, dict) and a.get('k') == 'bin' and a.get('op') == '+':
                        base, off = a.get('l'), a.get('r')
                    for g in s.fn.guards(s.bid):
                        l = g[0]
                        first = False
                        if isinstance(l, dict) and l.get('k') == 'idx' and sx(l.get('base')) == sx(base) and (sx(l.get('index')) == sx(off) if off is not None else const_of(l.get('index')) == 0):
                            first = True
                        if isinstance(l, dict) and l.get('k') == 'un' and l.get('op') == '*' and sx(l.get('e')) == sx(a):
                            first = True
                        if first and ((g[1] == '!=' and const_of(g[2]) == 0) or (g[1] == '==' and isinstance(const_of(g[2]), int) and const_of(g[2]) != 0)):
                            ok = True
                n += 1
                R.ob(rule, ok, s, 'the word sent as the parameter of the "%s" message is known to be non-empty (%s)' % (letter, why), key='word-param:%s' % f.name)
    R.floor(rule, 2, 'calls of the one-word message senders')


def run(P, R, tier):
    stdout_writers(P, R)
    verbosity(P, R)
    kind_table(P, R)
    sender_body(P, R)
    address_producers(P, R)
    dotted_quad_guard(P, R)
    banner(P, R)
    from ..report import Remap
    from . import c07, c12
    # nothing formatted for one client may be kept for the next: no static buffers on the way to the sender
    c07.storage_audit(P, Remap(R, {'C07.WMC.2': 'C09.WMC.3'}))
    # the announced address is stored by the parser: its group move must not scramble it
    c12.parser_rules(P, Remap(R, {'C12.COPY.1': 'C09.COPY.1', 'C12.MPT.2': 'C09.COPY.1', 'C12.MPT.3': 'C09.COPY.1', 'C12.MPT.4': 'C09.COPY.1'}))
    # the text denotes the announced address only if `::` replaces one genuine run of zero groups
    pf, pout, pposv = c12.printer(P)
    c12.run_counter(P, Remap(R, {'C12.MPT.1': 'C09.MPT.1'}), pf)
    # ... every significant digit of a group is printed, and the parser read the digits with their own values
    c12.digit_thresholds(P, Remap(R, {'C12.TAB.1': 'C09.TAB.2'}), pf, pout, pposv)
    from . import c13
    c13.hex_table(P, R, 'C09.TAB.3')
    # the text never begins with ':' (it would swallow the rest of the line as one parameter)
    head_, lv_, N_, body_ = c12.path_weight(P, Remap(R, {}), pf, pout, pposv)
    c12.first_char(P, Remap(R, {'C12.GRD.1': 'C09.GRD.3'}), pf, pout, pposv, lv_)
    # every announcement makes a fresh request: the address and port echoed are those of this announcement
    from . import c04, c05
    c04.serial_writers(P, Remap(R, {'C04.WMC.2': 'C09.WMC.4'}), c04.reader_is_canonical(P))
    # nothing is formatted from a request that has been released
    from .. import uar
    uar.check(P, R, 'C09.UAR.1')
    # an account stamp is one word: the copy stops at the first space
    w5 = c05.account_writers(P, Remap(R, {}))
    c05.account_copy(P, Remap(R, {'C05.BND.1': 'C09.BND.1'}), w5)
    # the fully written form (six groups and a dotted quad) of an announced address is stored, not cut short
    c13.full_range(P, R, c13.scope(P), 'C09.TAB.4', parts=('copy',))
    R.floor('C09.TAB.4', 1)
    # the id, address text and port of a message are read from the request record: no copy into that record (class,
    # account, names) runs past its member into the address text next to it
    from .. import bnd as _bnd
    _bnd.check_scope(P, R, 'C09.BND.2', _bnd.reader_scope(P))
    word_parameters(P, R)
    announced_address_checked(P, R)
    if not configured_member_words(P, R):
        raise AnalysisBroken('no request member sent as a word is filled from a configured text')
    # ... and the strlcpy those copies go through keeps its own promise
    _bnd.fallback_strlcpy(P, R, 'C09.BND.3')
    # id, address and port are words 0, 2 and 3 of the announcement: the tokenizer that splits the line skips runs of
    # blanks and terminates each word in place
    from . import c08 as _c08t
    _c08t.line_buffer_writes(P, R, 'C09.WMC.5')
    # what the daemon's own senders print is what they were given: each conversion gets an argument of its width and kind
    rules.fmt_args_agree(P, R, 'C09.FMT.4', {'iauth_send': 1, 'iauth_report_config': 1, 'iauth_report_stats': 1, 'iauth_x_query': 2})
    return EXPLANATION, ASSUMPTIONS
