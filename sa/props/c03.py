"""C03 - no stuck clients: the verdict comes as soon as it can.

Decided: (a) after any event that can complete the conditions the gate is evaluated before
the step ends, interprocedurally through module callbacks; (b) the counters are only ever
moved by relative steps paired through the module's own mask transitions.  Not decided: the
numeric invariant 'counter is zero exactly when nothing is pending' over histories - (b) is
its per-site necessary condition."""
from ..facts import AnalysisBroken
from ..model import sx, walk, is_var, is_field, const_of, vars_in, on_path
from .. import rules, core, holds
from ..report import Remap
from . import c04

EXPLANATION = (
    'Rules: (DIRTY.1) interprocedural typestate over {clean, dirty}: setting a data flag of a request, '
    'ORing the required mask into it or lowering a hold counter makes the step dirty; a call of the gate, a '
    'verdict or the removal of the request cleans it; summaries are computed to a fixpoint through direct '
    'calls and function-pointer slots; no event entry (handlers called from the dispatch switch, libevent '
    'callbacks of the module units, reply-slot implementers) may return dirty; (WMC.1) hold counters are '
    'only moved by ++/--, never assigned; (GRD.1) the soft-hold typestate (soft_holds moves exactly on the '
    'empty<->non-empty transitions of the awaiting mask, tested on the mask itself) and the hard-hold '
    'transition signatures with mirrored guards; (MPT.1) the timer callback records the expiry and reaches '
    'the gate on all paths, and the timer is created with that callback and the request as datum and '
    'armed; (GRD.2) the gate tests the counters with a relation that zero satisfies; (TAB.1) the routing tag '
    'is written and read back in the same base around the same separator, so a reply can find its client; '
    '(GRD.3) a blank ident and the user info complete each other in either order; (GRD.4) the reply lookup '
    'passes over a slot only because it is not awaited, empty or named differently.  The numeric invariant '
    'over histories is not decided.'
    ' Rounds 8-9: (TAB.3/WMC.3/FMT.1/TAB.4) shared: tag capacity, fresh zeroed request, one flush per message, per-message arity; (MPT.3) the reader\'s event is persistent and level-triggered.'
    ' Hunt round 1: (MPT.4) every documented form of a final answer (OK / AGAIN / MORE: with a text, with only the blank, bare) ends the wait on every path of the reply handler; (TAB.4) the service word of a reply is matched against the configured name without regard to case; (GRD.3) an empty ident names nobody; (WMC.4) one reference per awaited bit, given back once.')
ASSUMPTIONS = ['event entries are discovered from the dispatch switch, extern-callback registrations and the reply slots',
               'a call of the gate re-evaluates the request it is given; requests are not aliased across clients']


def dirty_entries(P, R):
    d = holds.Dirty(P)
    ent = core.event_entries(P)
    for k in sorted(ent):
        f, how = ent[k]
        bad = d.is_dirty(f)
        R.ob('C03.DIRTY.1', not bad, f, '%s (%s) never returns with newly enabled conditions unevaluated%s'
             % (f.name, how, (': ' + d.explain(f)) if bad else ''), key='entry:%s' % f.name)
    # exported setters that modules may call asynchronously must re-evaluate as well
    for name in ('iauth_force_username', 'iauth_trust_username', 'iauth_set_hostname'):
        f = P.fn(name)
        if f is None:
            continue
        bad = d.is_dirty(f)
        R.ob('C03.DIRTY.1', not bad, f, 'asynchronous setter %s re-evaluates the gate after changing the request%s'
             % (name, (': ' + d.explain(f)) if bad else ''), key='setter:%s' % name)
    R.floor('C03.DIRTY.1', 14, 'event entries')
    R.note('dirty summaries: %s' % sorted(k for k, v in d.S.items() if 'dirty' in v.get('clean', ())))


def counter_discipline(P, R):
    n = 0
    for f in P.fns.values():
        for s in f.stores():
            if s.ev['k'] != 'store':
                continue
            lhs = s.ev['lhs']
            if is_field(lhs, holds.HARD, core.REQ_REC) or is_field(lhs, holds.SOFT, core.REQ_REC):
                n += 1
                R.ob('C03.WMC.1', s.ev.get('op') in ('++', '--'), s,
                     '%s is moved by a relative step (found: %s)' % (sx(lhs), s.ev.get('op')), key='%s:%s' % (lhs['field'], s.ev.get('op')), nontrivial=False)
            # writes through memset/memcpy of whole requests would zero the counters
        for s in f.calls():
            if s.ev.get('callee') in ('memset', 'memcpy') and s.ev['args'] and is_var(s.ev['args'][0]) \
                    and s.ev['args'][0].get('t', '').replace('const ', '').startswith('struct iauth_request *'):
                R.ob('C03.WMC.1', False, s, 'a whole request is overwritten by %s' % s.ev['callee'], key='bulk-request')
    R.floor('C03.WMC.1', 5, 'stores to the hold counters')


def timer(P, R):
    cbs = P.callback_roots()
    gate_fn = list(core.gate(P)[1].values())
    timers = []
    for f in P.fns.values():
        for s in f.calls('event_new'):
            a = s.ev['args']
            if len(a) >= 5 and a[3].get('k') == 'func' and a[4].get('t', '').replace('const ', '').startswith('struct iauth_request'):
                timers.append((s, P.direct_target(f, a[3]['name'])))
    R.ob('C03.MPT.1', len(timers) >= 1, timers[0][0] if timers else core.sender(P), 'a per-request timer is created with the request as its datum', key='timer-created')
    for s, cb in timers:
        f = s.fn
        # stored into the request and armed
        st = [t for t in f.stores() if (t.ev.get('rhs') or {}).get('ev') == s.ev['id'] or ((t.ev.get('rhs') or {}).get('k') == 'callref' and (t.ev.get('rhs') or {}).get('callee') == 'event_new')]
        armed = f.path_avoiding(s, lambda t: rules.is_call(t, 'event_add')) is None
        R.ob('C03.MPT.1', armed, s, 'the timer is armed on every path after its creation', key='timer-armed')
        # ... with the timeout the configuration holds NOW: the seconds of the interval handed to event_add come from a
        # configuration node's parsed value read in this function, not from a copy taken at some earlier time
        for t in f.calls('event_add'):
            tv = t.ev['args'][1] if len(t.ev['args']) > 1 else None
            tvv = [x['name'] for x in walk(tv) if x.get('k') == 'var'] if isinstance(tv, dict) else []
            secs = [u for u in f.stores() if u.ev['k'] == 'store' and u.ev.get('op') == '=' and (u.ev.get('lhs') or {}).get('k') == 'mem' and u.ev['lhs'].get('field') == 'tv_sec'
                    and is_var(u.ev['lhs'].get('base')) and u.ev['lhs']['base']['name'] in tvv]
            for u in secs:
                rhs = u.ev.get('rhs')
                if is_var(rhs) and rhs.get('sc') == 'local' and f.single_def(rhs['name']):
                    rhs = f.single_def(rhs['name'])[1]
                fresh = isinstance(rhs, dict) and any(x.get('k') == 'mem' and x.get('field') in ('parsed', 'p_interval') for x in walk(rhs))
                R.ob('C03.MPT.1', fresh, u, 'the interval the timer is armed with is read from the configuration node when the client is announced (%s)' % sx(u.ev.get('rhs')), key='timer-interval-fresh')
        if cb is None:
            R.ob('C03.MPT.1', False, s, 'timer callback is not a function of this program', key='timer-callback')
            continue
        reqv = None
        for t in cb.sites():
            if t.ev['k'] == 'decl' and is_var(t.ev.get('init')) and t.ev['init']['name'] in cb.params and t.ev.get('t', '').replace('const ', '').startswith('struct iauth_request'):
                reqv = t.ev['var']

        def to_gate(t):
            return t.ev['k'] == 'call' and any(g in P.callees(t, False) for g in gate_fn)

        def records(t):
            return t.ev['k'] == 'bitset' and t.ev.get('bit') == 'IAUTH_TIMED_OUT' and core.is_req_flags(t.ev.get('set'))
        p1 = cb.path_avoiding(None, records, from_entry=True)
        p2 = cb.path_avoiding(None, to_gate, from_entry=True)
        R.ob('C03.MPT.1', p1 is None, cb, 'the timer callback records the expiry on every path', key='timeout-records',
             detail=('path: lines %s' % cb.path_lines(p1)) if p1 else None)
        R.ob('C03.MPT.1', p2 is None, cb, 'the timer callback re-evaluates the gate on every path', key='timeout-evaluates',
             detail=('path: lines %s' % cb.path_lines(p2)) if p2 else None)
        # order: record before evaluation
        for t in cb.sites():
            if to_gate(t):
                p3 = cb.path_avoiding(None, records, target=t.bid, from_entry=True)
                ok = p3 is None or any(records(u) for u in cb.block_sites(t.bid)[:t.idx])
                R.ob('C03.MPT.1', ok, t, 'the expiry is recorded before the gate is evaluated', key='timeout-order')
    R.floor('C03.MPT.1', 5)


def gate_relations(P, R):
    """GRD.2: each test of a hold counter in the gate is satisfied by the value zero."""
    for g in core.gate(P)[1].values():
        n = 0
        for b in g.blocks.values():
            c = (b.get('term') or {}).get('cond')
            if c is None:
                continue
            from ..model import rel
            l, op, rr = rel(c, True)
            if is_field(l, holds.HARD, core.REQ_REC) or is_field(l, holds.SOFT, core.REQ_REC):
                v = const_of(rr)
                if v is None:
                    R.ob('C03.GRD.2', False, g, 'hold counter compared with a non-constant', key='gate-rel:%s' % l['field'])
                    continue
                # the relation or its negation must be satisfied exactly... zero must be on the accepting side:
                sat_true = {'==': 0 == v, '!=': 0 != v, '<': 0 < v, '<=': 0 <= v, '>': 0 > v, '>=': 0 >= v}[op]
                # negative values must not be treated as 'held': only the zero test or a not-positive test is exact enough
                exact = (op in ('==', '!=') and v == 0) or (op in ('<=', '>') and v == 0) or (op in ('<', '>=') and v == 1)
                n += 1
                R.ob('C03.GRD.2', exact, P.relloc((b.get('term') or {}).get('loc', '?')),
                     'the gate separates zero from positive values of %s (test: %s %s %d)' % (l['field'], sx(l), op, v), key='gate-rel:%s' % l['field'])
                R.obligations[-1]['function'] = g.name
        R.floor('C03.GRD.2', 2, 'counter tests in the gate')


def blank_ident(P, R):
    """GRD.3: a blank ident and the user info complete each other in either order.  In the ident handler the
    branch without an ident decides between 'ident known' and 'wait for the user info' on something the
    user-info handler establishes (a field it stores, or its flag); the user-info handler in turn
    completes a recorded blank ident."""
    rd, disp = core.reader_dispatch(P)
    uh = [h for (s, h, vs) in disp if vs and ord('u') in vs]
    Uh = [h for (s, h, vs) in disp if vs and ord('U') in vs]
    if not uh or not Uh:
        raise AnalysisBroken('ident / user-info handlers not found in the dispatch')
    u, U = uh[0], Uh[0]
    ufields = set()
    for s in U.sites():
        for lv in P.written_lvalues(s):
            from ..model import path_fields
            for rec, fld in path_fields(lv):
                if rec == core.REQ_REC and fld != 'flags':
                    ufields.add(fld)
    ident_p = u.params[1] if len(u.params) > 1 else None
    n = 0
    for s in u.sites():
        if s.ev['k'] == 'bitset' and s.ev.get('bit') == 'IAUTH_GOT_IDENT' and core.is_req_flags(s.ev.get('set')):
            gs = u.guards(s.bid)
            if any(is_var(g[0], ident_p) and g[1] == '!=' for g in gs):
                # an ident was delivered - and it is one: `<id> u :` hands over the empty string, which names nobody (the
                # user name sent on to a login-with-address service would be an empty word, shifting account and password)
                def first_byte(l):
                    return isinstance(l, dict) and ((l.get('k') == 'idx' and is_var(l.get('base'), ident_p) and const_of(l.get('index')) == 0) or
                                                    (l.get('k') == 'un' and l.get('op') == '*' and is_var(l.get('e'), ident_p)))
                n += 1
                R.ob('C03.GRD.3', any(first_byte(g[0]) and g[1] == '!=' and const_of(g[2]) == 0 for g in gs), s,
                     'a delivered ident makes the user name known only if it is not empty (its first byte is tested)', key='blank-ident:empty-word')
                continue
            n += 1
            ok = False
            seen = []
            for g in gs:
                l = g[0]
                for x in walk(l):
                    if x.get('k') == 'mem' and x.get('rec') == core.REQ_REC:
                        seen.append(x['field'])
                        if x['field'] in ufields and g[1] == '!=':
                            ok = True
                if isinstance(l, dict) and l.get('k') == 'bittest' and l.get('bit') == 'IAUTH_GOT_USER_INFO' and g[1] == '!=':
                    ok = True
            R.ob('C03.GRD.3', ok, s, 'without an ident, GOT_IDENT is set exactly when the user info has already arrived (test on a field the user-info handler stores: %s; tested: %s)'
                 % (sorted(ufields), seen), key='blank-ident:known')
        if s.ev['k'] == 'bitset' and s.ev.get('bit') == 'IAUTH_EMPTY_IDENT':
            n += 1
            R.ob('C03.GRD.3', True, s, 'otherwise the blank ident is recorded for the user-info handler to complete', key='blank-ident:recorded', nontrivial=False)
    if n == 0:
        # the flag chosen into a local: `flag = (ident || <user info arrived>) ? GOT_IDENT : EMPTY_IDENT; set(flag)`
        for s in u.sites():
            be = s.ev.get('bitexpr') if s.ev['k'] == 'bitset' and core.is_req_flags(s.ev.get('set')) else None
            if not (isinstance(be, dict) and be.get('k') == 'var'):
                continue
            d = u.single_def(be['name'])
            v = d[1] if d else None
            if not (isinstance(v, dict) and v.get('k') == 'cond' and {(v['t'] or {}).get('name'), (v['f'] or {}).get('name')} == {'IAUTH_GOT_IDENT', 'IAUTH_EMPTY_IDENT'}):
                continue
            c = v['c']
            got_when_true = (v['t'] or {}).get('name') == 'IAUTH_GOT_IDENT'
            disj = []
            def flat(e):
                if isinstance(e, dict) and e.get('k') == 'bin' and e.get('op') == ('||' if got_when_true else '&&'):
                    flat(e['l']); flat(e['r'])
                else:
                    disj.append(e)
            flat(c)
            from ..model import rel as _rel
            rels = [_rel(x, True) for x in disj]
            has_ident = any(is_var(r[0], ident_p) and r[1] == ('!=' if got_when_true else '==') for r in rels)
            # the ident disjunct may be a local computed from the ident (`named = ident != NULL && ident[0] != 0`), or that
            # conjunction written in place; it names somebody only if its first byte is tested
            def first_byte2(l):
                return isinstance(l, dict) and ((l.get('k') == 'idx' and is_var(l.get('base'), ident_p) and const_of(l.get('index')) == 0) or
                                                (l.get('k') == 'un' and l.get('op') == '*' and is_var(l.get('e'), ident_p)))
            nonempty = False
            if got_when_true:
                for x in disj:
                    e = x
                    if is_var(x) and x.get('sc') == 'local' and u.single_def(x['name']) and isinstance(u.single_def(x['name'])[1], dict):
                        e = u.single_def(x['name'])[1]
                    conj = []
                    def flat2(y):
                        if isinstance(y, dict) and y.get('k') == 'bin' and y.get('op') == '&&':
                            flat2(y['l']); flat2(y['r'])
                        else:
                            conj.append(y)
                    flat2(e)
                    crels = [_rel(y, True) for y in conj]
                    if any(is_var(r[0], ident_p) and r[1] == '!=' for r in crels):
                        has_ident = True
                        nonempty = nonempty or any(first_byte2(r[0]) and r[1] == '!=' and const_of(r[2]) == 0 for r in crels)
            n += 1
            R.ob('C03.GRD.3', nonempty, s, 'a delivered ident makes the user name known only if it is not empty (its first byte is tested)', key='blank-ident:empty-word')
            has_info = any(any(x.get('k') == 'mem' and x.get('rec') == core.REQ_REC and x['field'] in ufields for x in walk(r[0])) and r[1] == ('!=' if got_when_true else '==') for r in rels)
            n += 2
            R.ob('C03.GRD.3', has_ident and has_info and len(rels) == 2, s, 'without an ident, GOT_IDENT is chosen exactly when the user info has already arrived (%s)' % sx(c), key='blank-ident:known')
            R.ob('C03.GRD.3', True, s, 'otherwise the blank ident is recorded for the user-info handler to complete', key='blank-ident:recorded', nontrivial=False)
    R.floor('C03.GRD.3', 2)


def reply_settles(P, R, cl, rule='C03.MPT.2'):
    """A final answer from an awaited service ends the wait: once the reply handler has matched the answering
    service, it leaves without releasing the awaiting bit only for a refusal (which is a verdict) or for a text it
    does not recognise - every such return is decided by the reply's content, never by bookkeeping state (a service's
    reference count, configuration flags), which a reload may have changed in the meantime."""
    n = 0
    for f in cl.values():
        rel_sites = [t for t in f.stores() if t.ev['k'] == 'store' and is_field(t.ev['lhs'], holds.MASK) and t.ev.get('op') == '&=']
        if not rel_sites or len(f.params) < 3:
            continue
        replyp = f.params[2]
        rel = rel_sites[0]
        # single-exit form: `int release = 1; ... release = 0; ... if (release) { clear the bit ... }` - the places where
        # the flag is set to the value that skips the release stand for the early returns
        skips = []
        for g in f.guards(rel.bid):
            if is_var(g[0]) and g[0]['name'] in f.flag_locals() and isinstance(const_of(g[2]), int):
                want = (g[1], const_of(g[2]))
                for t in f.stores():
                    if t.ev['k'] == 'store' and is_var(t.ev.get('lhs'), g[0]['name']) and isinstance(const_of(t.ev.get('rhs')), int):
                        v = const_of(t.ev['rhs'])
                        holds_ = {'==': v == want[1], '!=': v != want[1], '<': v < want[1], '>': v > want[1], '<=': v <= want[1], '>=': v >= want[1]}[want[0]]
                        if not holds_:
                            skips.append(t)
        for s in list(f.sites()):
            if s.ev['k'] != 'ret' and s not in skips:
                continue
            # after the lookup: the release is reachable from an ancestor that also reaches this return, and the
            # return is not the release path itself
            if s not in skips and (s.bid in f.reach([rel.bid]) or rel.bid == s.bid):
                continue
            gs = f.guards(s.bid)
            matched = any(isinstance(g[0], dict) and is_var(g[0]) and g[1] == '<' and on_path(g[2], 'used') for g in gs) or \
                any(is_var(g[0]) and g[1] in ('<',) and not isinstance(const_of(g[2]), int) for g in gs)
            if not matched:
                continue
            n += 1
            killed = any(t.ev['k'] == 'call' and t.ev.get('callee') in ('iauth_kill', 'iauth_quietly_kill') for t in f.block_sites(s.bid)[:s.idx])
            foreign = [g for g in gs if not any(is_var(x, replyp) for x in walk(g[0])) and not (is_var(g[0]) and g[1] == '<') and not is_var(g[0], f.params[0])
                       and not (is_var(g[0]) and g[0].get('t', '').endswith('*') and const_of(g[2]) == 0)]
            R.ob(rule, killed or not foreign, s, 'after the answering service was matched, the handler returns without releasing the wait only because of the reply text%s' %
                 ('' if (killed or not foreign) else ' (this return depends on %s %s %s)' % (sx(foreign[0][0]), foreign[0][1], sx(foreign[0][2]))), key='reply-return:%s' % ('ok' if (killed or not foreign) else sx(foreign[0][0])))
    R.floor(rule, 1)


def reader_drains(P, R, rule='C03.MPT.3'):
    """"In the same step as the event": the input handler is woken when the descriptor becomes readable, not when
    complete lines are still sitting in its private buffer - so once it has read, it dispatches EVERY complete line
    before it returns.  The line loop is left only where the line reader says there is no further complete line (a
    batch limit or any other early exit leaves events unprocessed until the server happens to write again)."""
    rd, disp = core.reader_dispatch(P)
    linevars = {t.ev['lhs']['name'] for t in rd.stores() if t.ev['k'] == 'store' and is_var(t.ev.get('lhs')) and any(isinstance(x, dict) and x.get('k') == 'callref' and x.get('callee') == 'evbuffer_readln' for x in walk(t.ev.get('rhs') or {}))}

    def has_readln(b):
        c = rd.term_cond(b)
        if c is None:
            return False
        if any(isinstance(x, dict) and x.get('k') == 'callref' and x.get('callee') == 'evbuffer_readln' for x in walk(c)):
            return True
        # `line = evbuffer_readln(...); if (line == NULL) break;`: the test of the variable right after the call
        from ..model import rel as _rel
        r = _rel(c, True)
        return bool(r) and is_var(r[0]) and r[0]['name'] in linevars and const_of(r[2]) == 0 and any(
            t.ev['k'] == 'store' and is_var(t.ev.get('lhs'), r[0]['name']) and (t.ev.get('rhs') or {}).get('callee') == 'evbuffer_readln' for t in rd.block_sites(b))
    heads = [b for b in rd.reachable_blocks() if has_readln(b)]
    if not heads:
        raise AnalysisBroken('the input handler no longer takes its lines from evbuffer_readln in a loop condition')
    for b in heads:
        fwd = rd.reach([e.dst for e in rd.out[b]])
        loop = {x for x in fwd if b in rd.reach([e.dst for e in rd.out[x]])} | {b}
        if loop == {b} and b not in fwd:
            raise AnalysisBroken('the line reader is not in a loop')
        exits = []
        for x in loop:
            for e in rd.out[x]:
                if e.dst in loop:
                    continue
                if x == b:
                    r = e.rel()
                    if r and r[1] == '==' and const_of(r[2]) == 0:
                        continue       # no further complete line
                # leaving because the process is about to exit is not an event left behind
                ss = rd.block_sites(e.dst)
                if ss and any(t.ev['k'] == 'call' and t.ev.get('callee') in ('exit', '_exit', 'event_base_loopbreak', 'event_base_loopexit') for t in ss):
                    continue
                exits.append((x, e))
        R.ob(rule, not exits, rd, 'the line loop of %s is left only when no complete line is left in the buffer%s' % (rd.name, '' if not exits else ' (it can also be left %s)' % '; '.join(e.describe() for _, e in exits[:2])), key='reader-drains')
    # what was read is parsed: the only consumer of the input buffer is the line reader (nothing drains or drops
    # buffered bytes, which may hold complete lines of any client), the descriptor is read once per wake-up (a second
    # read may block, or meet the end of input with unparsed lines still buffered), and after a read that brought
    # bytes every path reaches the line loop
    reads = [t for t in rd.calls('evbuffer_read')]
    if not reads:
        raise AnalysisBroken('the input handler no longer reads with evbuffer_read')
    inbuf = {sx(t.ev['args'][0]) for t in reads}
    for f in P.unit_fns(rd.unit):
        for t in f.calls():
            c = t.ev.get('callee') or ''
            if c.startswith('evbuffer_') and c not in ('evbuffer_read', 'evbuffer_readln', 'evbuffer_new', 'evbuffer_free', 'evbuffer_get_length') and t.ev['args'] and (sx(t.ev['args'][0]) in inbuf or is_var(t.ev['args'][0], 'iauth_in')):
                R.ob(rule, False, t, 'buffered input is consumed only by the line reader (%s takes bytes out of it)' % c, key='input-consumer:%s' % c)
    for t in reads:
        on_cycle = t.bid in rd.reach([e.dst for e in rd.out[t.bid]])
        R.ob(rule, not on_cycle, t, 'the descriptor is read once per wake-up', key='read-once')
        resv = None
        for u in rd.stores():
            if (u.ev.get('rhs') or {}).get('ev') == t.ev.get('id') and is_var(u.ev.get('lhs')):
                resv = u.ev['lhs']['name']

        def in_loop(u, heads=tuple(heads)):
            return u.bid in heads
        # paths from the read to the exit that avoid the line loop must pass a test saying the read brought nothing
        cut = []
        for b in rd.reachable_blocks():
            for e in rd.out[b]:
                r = e.rel() if e.cond is not None and e.label not in ('case', 'default') else None
                if r and resv and is_var(r[0], resv) and isinstance(const_of(r[2]), int) and ((r[1] in ('<', '<=') and const_of(r[2]) <= 0) or (r[1] == '==' and const_of(r[2]) <= 0)):
                    cut.append(e)
        live = rd.reach([t.bid], cut_edges=cut, cut_blocks=list(heads))
        R.ob(rule, rd.exit not in live, t, 'after a read that brought bytes every path reaches the line loop', key='read-then-parse')
    # one bounded read per wake-up relies on being woken again while bytes are left: the reader's event is a persistent,
    # level-triggered read event (edge-triggered, it fires once per write of the server - whatever a burst leaves
    # unread, the end of input included, is never looked at)
    EV_READ, EV_PERSIST, EV_ET = 0x02, 0x10, 0x20
    evs = []
    for f in P.fns.values():
        for t in f.sites():
            for ex in rules.event_exprs(t.ev):
                for x in walk(ex):
                    if isinstance(x, dict) and x.get('k') in ('callref',) and x.get('callee') in ('event_new', 'event_assign') and any(a.get('k') == 'func' and a.get('name') == rd.name for a in x.get('args', ())):
                        evs.append((t, x))
            if t.ev['k'] == 'call' and t.ev.get('callee') in ('event_new', 'event_assign') and any(a.get('k') == 'func' and a.get('name') == rd.name for a in t.ev['args']):
                evs.append((t, t.ev))
    for t, c in evs:
        fa = [i for i, a in enumerate(c['args']) if a.get('k') == 'func'][0]
        fl = const_of(c['args'][fa - 1])
        R.ob(rule, isinstance(fl, int) and (fl & EV_READ) and (fl & EV_PERSIST) and not (fl & EV_ET), t,
             'the reader is bound to a persistent, level-triggered read event (flags %s; EV_READ=0x02, EV_PERSIST=0x10, EV_ET=0x20)' % (hex(fl) if isinstance(fl, int) else sx(c['args'][fa - 1])), key='reader-event')
    if not evs:
        raise AnalysisBroken('no event is created for the input handler')
    R.floor(rule, 4)


def service_names_caseless(P, R, rule='C03.TAB.4'):
    """Server names are case-insensitive on the network: the name a reply carries is the service's own idea of its
    spelling, not the one in the configuration file.  Where a reply handler matches the service word of a reply against
    a configured name, the comparison ignores case (as the class module's lookup of a service already does) - compared
    byte for byte, the answer of `Login.Example.Org` to a query sent to `login.example.org` is dropped and the client
    it was about waits for ever."""
    from .c05 import reply_closure
    n = 0
    for f in reply_closure(P).values():
        for s in f.calls():
            c = s.ev.get('callee')
            if c not in ('strcmp', 'strncmp', 'strcasecmp', 'strncasecmp', 'memcmp', 'irccasecmp'):
                continue
            args = s.ev['args'][:2]
            if len(args) < 2:
                continue
            named = [a for a in args if any(x.get('k') == 'mem' and x.get('field') == 'name' and 'service' in (x.get('rec') or '') for x in walk(a))]
            wire = [a for a in args if is_var(a) and a['name'] in f.params]
            if not (named and wire):
                continue
            n += 1
            R.ob(rule, c in ('strcasecmp', 'strncasecmp', 'irccasecmp'), s, 'the service word of a reply (%s) is matched against the configured name without regard to case (compared with %s)' % (sx(wire[0]), c), key='caseless:%s' % f.name)
    R.floor(rule, 1, 'comparisons of a reply\'s service word with a configured name')


def run(P, R, tier):
    # a reply can only end the wait if its routing tag is read back the way it was written
    r, sepch, idv, serv = c04.tag_tables(P, Remap(R, {'C04.TAB.1': 'C03.TAB.1'}))
    cl = c04.lookup_discipline(P, Remap(R, {}))
    c04.lookup_skips(P, Remap(R, {'C04.GRD.3': 'C03.GRD.4'}), cl)
    reply_settles(P, R, cl)
    reader_drains(P, R)
    blank_ident(P, R)
    dirty_entries(P, R)
    counter_discipline(P, R)
    holds.soft_hold_typestate(P, R, 'C03.GRD.1')
    holds.hard_hold_sites(P, R, 'C03.GRD.1')
    timer(P, R)
    gate_relations(P, R)
    rules.bitset_primitives(P, R, 'C03.TAB.2')
    # a reply keyword with a CR glued to it is not recognised and the client waits forever
    from . import c08, c10
    c08.line_splitting(P, R, 'C03.TAB.1')
    # the timeout is the last resort against a silent service: one timer per request, armed once, with the configured value
    cl10 = c10.cleanup_fn(P, Remap(R, {'C10.MPT.1': 'C03.TMR.1', 'C10.WIRE.1': 'C03.TMR.1'}))
    c10.timer_lifecycle(P, Remap(R, {'C10.WMC.2': 'C03.TMR.1'}), cl10)
    # the timed-out bit is what lets a hurried, incomplete client through: nothing may overwrite the flag word
    from . import c01, c07
    V, softfns = c01.fmt_rules(P, Remap(R, {}))
    c01.who_may(P, Remap(R, {'C01.WMC.1': 'C03.WMC.2'}, keys=('bulk', 'clears:')), V, softfns)
    # the timed-out bit that voids the soft holds is the request's own (the gate's formula, shared with C02)
    from . import c02
    c02.gate_guard(P, Remap(R, {'C02.GRD.1': 'C03.GRD.5'}))
    # a final answer the handler does not recognise leaves the hold in place for good
    c02.answers_settle(P, R, 'C03.MPT.4')
    service_names_caseless(P, R)
    # a reference given back twice frees a retired service's slot under a client that still waits for its reply: the reply
    # then matches no slot and the wait never ends
    holds.refs_discipline(P, R, 'C03.WMC.4')
    # a reply whose serial is compared in a narrower type is dropped once the counter outgrows it
    c04.validated_return(P, Remap(R, {'C04.GRD.1': 'C03.GRD.4'}, keys=('width:',)), r, sepch, idv, serv)
    # a retired service slot stays while a client still waits for its reply (the reply is what ends the wait)
    c07.storage_audit(P, Remap(R, {'C07.WMC.1': 'C03.WMC.2'}, keys=('slot-release',)))
    # an awaited bit that does not fit its mask is lost and the soft hold never released
    rules.narrowing_fields(P, R, 'C03.WID.1', ('modules/iauth_core.c', 'modules/iauth_xquery.c', 'modules/iauth_class.c'))
    rules.counter_widths(P, R, 'C03.WID.2', recs=('iauth_xquery_service', 'iauth_request'))
    # shared with other properties (round 9): what the client is waiting for can only arrive if ...
    from ..report import Remap as _Remap
    from . import c04 as _c04, c10 as _c10, c09 as _c09, c08 as _c08
    # ... the tag sent with a query is whole (a cut tag never matches the reply: the hold is never released)
    _c04.tag_capacity(P, R, 'C03.TAB.3')
    # ... every announcement starts from a fresh, zeroed request (no holds inherited from the id's previous user)
    _c10.table_sites(P, _Remap(R, {'C10.WMC.1': 'C03.WMC.3'}))
    # ... a verdict leaves the process in the step that produced it (one flush per message)
    _c09.sender_body(P, _Remap(R, {'C09.FMT.2': 'C03.FMT.1'}))
    # ... no message is dropped for want of words it does not need (a blank ident answer is `<id> u` alone)
    _c08.terminator_and_arity(P, _Remap(R, {'C08.TAB.1': 'C03.TAB.4'}))
    return EXPLANATION, ASSUMPTIONS
