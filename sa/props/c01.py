"""C01 - one verdict per announced client, then silence.

Decided: the mechanism 'verdict functions mark the request responded, write the line, then
retire the request; lines for ids without a live request are dropped; soft-done only while
its flag is clear', on all paths, plus absence of any use of a request after it may have
been retired.  Not decided: that the request table behaves as a map (C19)."""
from ..facts import AnalysisBroken
from ..model import sx, walk, is_var, is_field, const_of, vars_in
from .. import rules, uar, core
from .c08 import junk_inert

EXPLANATION = (
    'Rules over every unit: (FMT.1) addressed sends whose literal first word is k, R or D define the '
    'verdict functions V; a literal d only in the soft-done function; (MPT.1) in every function of V each '
    'entry->exit path sets RESPONDED on the request, sends the verdict and calls a routine that retires the '
    'request, the retire after the other two; the retiring routine and the disconnect handler reach '
    'set_remove(table, req, dispose) on every non-null path; (WMC.1/GRD.1) RESPONDED is set only in V; '
    'iauth_accept is called only from the gate under the !RESPONDED edge; soft-done only from the gate '
    'under !SOFT_DONE and it sets SOFT_DONE on all paths; no store clears RESPONDED or SOFT_DONE of a '
    'request; the required-flags mask has RESPONDED cleared after every recomputation; (GRD.2) a verdict '
    'call outside the core takes a request obtained from the validating lookup in the same function and '
    'null-checked; (GRD.3) the dispatch passes only a freshly looked-up request or a deliberate NULL, and '
    'handlers that may receive NULL test it before any dereference; (UAR.1) no request is used after a call '
    'that may retire it.  Decides the mechanism on all paths; container semantics are C19.'
    ' Rounds 8-9: (WMC.4) what modules install in the registered / disconnect slots cannot reach the sender; (TMR.1) an event that carries a request is owned by it.'
    ' Hunt round 1: (MPT.5) every path through the announcement handler settles the previous holder of the id - inserts (replacing it) or looks it up and retires it.')
ASSUMPTIONS = ['clang 14 CFG; module callbacks resolved through function-pointer slots',
               'the request table is the file-static iauth_reqs; set_remove(table, x, 0) disposes x',
               'one UAR exception with machine-checked premises (DESIGN.md 4.1)']


def fmt_rules(P, R):
    V = core.verdict_fns(P)
    n = 0
    softfns = set()
    for s, fmt, addressed in core.send_sites(P):
        if not addressed:
            continue
        w = core.first_word(fmt)
        n += 1
        R.ob('C01.FMT.1', fmt is not None, s, 'addressed send has a literal format (%s)' % (repr(fmt) if fmt else sx(s.ev['args'][1])),
             key='literal:%s' % (w or sx(s.ev['args'][1])), nontrivial=False)
        if w == 'd':
            softfns.add(s.fn.key)
    # soft-done sender: exactly one function, and it is not a verdict function
    R.ob('C01.FMT.1', len(softfns) == 1 and not (softfns & set(V)), P.fns[sorted(softfns)[0]] if softfns else core.sender(P),
         'the soft-done line d is sent by exactly one function, distinct from the verdict functions (found: %s)' % sorted(softfns),
         key='soft-done-sender')
    R.floor('C01.FMT.1', 10, 'addressed sends')
    return V, softfns


# client -> iauth messages of the protocol (ircu doc/readme.iauth), frozen: letter -> meaning
PROTOCOL = {'C': 'client introduction', 'D': 'client disconnect', 'N': 'hostname received', 'd': 'hostname timeout', 'P': 'client password',
            'U': 'client username', 'u': 'client username (ident)', 'n': 'client nickname', 'H': 'hurry up', 'T': 'client registered',
            'E': 'error', 'M': 'server name and capacity', 'X': 'extension query reply', 'x': 'extension server not linked'}


def verdict_discipline(P, R, V):
    ret = uar.Ret(P, [('iauth_class_rule_check', 'iauth_trust_username')] if uar.exception_premises(P)[0] else [])
    for f in V.values():
        reqp = [p['name'] for p in f.param_info if p['t'].replace('const ', '') == uar.REQ_T]
        if not reqp:
            R.ob('C01.MPT.1', False, f, 'verdict function has no request parameter', key='shape')
            continue
        rq = reqp[0]

        def marks(s):
            return s.ev['k'] == 'bitset' and s.ev.get('bit') == 'IAUTH_RESPONDED' and is_var((s.ev['set'] or {}).get('base'), rq)

        def sends(s):
            if not rules.is_call(s, 'iauth_send'):
                return False
            fmt = rules.fmt_literal(s.ev, 1)
            return is_var(s.ev['args'][0], rq) and core.first_word(fmt) in core.VERDICT_WORDS

        def retires(s):
            if s.ev['k'] != 'call':
                return False
            if ret.base(s) == rq:
                return True
            return any(is_var(s.ev['args'][j], rq) for j in ret.retiring_args(s))

        for nm, pred in (('sets RESPONDED', marks), ('sends the verdict line', sends), ('retires the request', retires)):
            path = f.path_avoiding(None, pred, from_entry=True)
            R.ob('C01.MPT.1', path is None, f, 'every path through %s %s' % (f.name, nm), key=nm,
                 detail=('path avoiding it: lines %s' % f.path_lines(path)) if path else None)
        # exactly one: no second verdict line is reachable behind a verdict line
        for s in f.sites():
            if not sends(s):
                continue
            again = [t for t in f.block_sites(s.bid)[s.idx + 1:] if sends(t)]
            again += [t for b in f.reach([e.dst for e in f.out[s.bid]]) for t in f.block_sites(b) if sends(t)]
            R.ob('C01.MPT.1', not again, s, 'no second verdict line is reachable behind this one', key='one-verdict', detail=[t.loc for t in again] or None)
        # silence: between the verdict line and the return nothing else is written about the client - the only calls
        # behind it that can reach the sender are the retiring ones (whose module notifications C01.WMC keeps quiet)
        em = core.emitters(P)
        for s in f.sites():
            if not sends(s):
                continue
            later = [t for t in f.block_sites(s.bid)[s.idx + 1:]] + [t for b in f.reach([e.dst for e in f.out[s.bid]]) for t in f.block_sites(b)]
            noisy = [t for t in later if t.ev['k'] == 'call' and not retires(t) and any(x.key in em for x in P.callees(t, True))
                     and any(is_var(y, rq) for a in t.ev['args'] for y in walk(a))]
            R.ob('C01.MPT.1', not noisy, s, 'nothing else is written about the client between its verdict line and the return of %s' % f.name, key='verdict-then-silence',
                 detail=[t.loc for t in noisy] or None)
        # ordering: the retire comes after the mark and the send on every path
        for s in f.sites():
            if not retires(s):
                continue
            # calls that retire only through the documented re-entrant path are the pre-verdict notification; the last retire matters
            later = f.path_avoiding(s, lambda t: False)  # path to exit always exists
            for nm, pred in (('RESPONDED set', marks), ('verdict sent', sends)):
                p2 = f.path_avoiding(None, pred, target=s.bid, from_entry=True)
                before_in_block = any(pred(t) for t in f.block_sites(s.bid)[:s.idx])
                ok = (p2 is None) or before_in_block
                R.ob('C01.MPT.1', ok, s, '%s before the retiring call %s(...)' % (nm, s.ev.get('callee')), key='order:%s' % nm)
            # nothing is sent about the request after the retire
            after = [t for b in f.reach([s.bid]) for t in f.block_sites(b)
                     if rules.is_call(t, 'iauth_send') and (t.bid != s.bid or t.idx > s.idx)]
            R.ob('C01.MPT.1', not after, s, 'no send follows the retiring call', key='order:silence', detail=[t.loc for t in after] or None)
    # retiring routines reach the disposing removal on every non-null path
    pred = core.retire_pred(P)
    for name in ('parse_registered', 'parse_disconnect'):
        f = P.need_fn(name)
        rq = [p['name'] for p in f.param_info if p['t'] == uar.REQ_T][0]
        # start after the null test: the fall-through edge (req != 0)
        starts = []
        for bid in f.reachable_blocks():
            for e in f.out[bid]:
                r = rules.edge_rel(e)
                if r and is_var(r[0], rq) and r[1] == '!=' and const_of(r[2]) == 0:
                    starts.append(e.dst)
        if not starts:
            R.ob('C01.MPT.1', False, f, '%s has no null test of its request' % name, key='nulltest')
            continue
        bad = None
        for st in starts:
            first = f.block_sites(st)
            if any(pred(t) for t in first):
                continue
            p = f.path_avoiding(first[-1], pred) if first else None
            if first and p is not None:
                bad = p
        R.ob('C01.MPT.1', bad is None, f, 'every non-null path of %s removes the request from the table with disposal' % name,
             key='removes', detail=('path: lines %s' % f.path_lines(bad)) if bad else None)
        rm = [t for t in f.sites() if pred(t)]
        for t in rm:
            R.ob('C01.MPT.1', is_var(t.ev['args'][1], rq), t, 'the request removed is the handler\'s own', key='removes-own', nontrivial=False)
    R.floor('C01.MPT.1', 12)


def who_may(P, R, V, softfns):
    acc, gates = core.gate(P)
    R.ob('C01.WMC.1', len(gates) == 1, acc, 'iauth_accept has exactly one caller, the gate (found: %s)' % sorted(gates), key='accept-callers')
    for g in gates.values():
        for s in g.calls('iauth_accept'):
            gs = g.guards(s.bid)
            ok = any(core.bittest_rel(r, 'IAUTH_RESPONDED') is False for r in gs)
            R.ob('C01.GRD.1', ok, s, 'the accept call is dominated by the !RESPONDED edge', key='accept:!RESPONDED')
    # RESPONDED / SOFT_DONE writers
    for f in P.fns.values():
        for s in f.sites():
            ev = s.ev
            if ev['k'] == 'bitset' and core.is_req_flags(ev.get('set')):
                if ev.get('bit') == 'IAUTH_RESPONDED':
                    R.ob('C01.WMC.1', f.key in V, s, 'RESPONDED is set only inside a verdict function', key='RESPONDED-writer')
                if ev.get('bit') == 'IAUTH_SOFT_DONE':
                    R.ob('C01.WMC.1', f.key in softfns, s, 'SOFT_DONE is set only by the soft-done sender', key='SOFT_DONE-writer')
            if ev['k'] == 'bitclear' and core.is_req_flags(ev.get('set')) and ev.get('bit') in ('IAUTH_RESPONDED', 'IAUTH_SOFT_DONE'):
                R.ob('C01.WMC.1', False, s, '%s of a request is cleared: a second verdict / soft-done becomes possible' % ev['bit'], key='clears:%s' % ev['bit'])
            if ev['k'] == 'call' and ev.get('callee') in ('memset', 'bitset_clear', 'bitset_and', 'bitset_andnot', 'memcpy') and ev['args'] \
                    and any(core.is_req_flags(x) for x in walk(ev['args'][0])):
                R.ob('C01.WMC.1', False, s, 'request flags bulk-overwritten by %s' % ev['callee'], key='bulk:%s' % ev['callee'])
            if ev['k'] == 'call' and ev.get('callee') == 'bitset_or' and ev['args'] and any(core.is_req_flags(x) for x in walk(ev['args'][0])):
                keeps = len(ev['args']) >= 3 and (sx(ev['args'][0]) == sx(ev['args'][1]) or sx(ev['args'][0]) == sx(ev['args'][2]))
                R.ob('C01.WMC.1', keeps, s, 'bits are ORed INTO the request flags (the destination is one of the operands), so RESPONDED / SOFT_DONE survive: bitset_or(%s)'
                     % ', '.join(sx(a) for a in ev['args'][:3]), key='bulk-or-keeps')
    # soft-done: only from the gate, under !SOFT_DONE, and sets the flag on all paths
    for k in softfns:
        sf = P.fns[k]
        callers = P.callers(sf, may=True)
        for s in callers:
            R.ob('C01.WMC.1', s.fn.key in gates, s, 'soft-done is requested only by the gate', key='soft-done-caller')
            gs = s.fn.guards(s.bid)
            R.ob('C01.GRD.1', any(core.bittest_rel(r, 'IAUTH_SOFT_DONE') is False for r in gs), s,
                 'the soft-done call is dominated by the !SOFT_DONE edge', key='soft:!SOFT_DONE')
        p = sf.path_avoiding(None, lambda t: t.ev['k'] == 'bitset' and t.ev.get('bit') == 'IAUTH_SOFT_DONE' and core.is_req_flags(t.ev.get('set')), from_entry=True)
        R.ob('C01.GRD.1', p is None, sf, 'the soft-done sender sets SOFT_DONE on every path', key='soft:sets')
    # the required mask never contains RESPONDED: each recomputation ends by clearing it
    for f in P.fns.values():
        writes = [s for s in f.sites() if s.ev['k'] == 'call' and s.ev.get('callee') in ('bitset_or', 'memset', 'bitset_set', 'memcpy')
                  and s.ev['args'] and any(is_var(x, 'iauth_flags') for x in walk(s.ev['args'][0]))]
        writes += [s for s in f.sites() if s.ev['k'] == 'bitset' and any(is_var(x, 'iauth_flags') for x in walk(s.ev.get('set')))]
        for s in writes:
            def clears(t):
                return t.ev['k'] == 'bitclear' and t.ev.get('bit') == 'IAUTH_RESPONDED' and any(is_var(x, 'iauth_flags') for x in walk(t.ev.get('set')))
            p = f.path_avoiding(s, clears)
            R.ob('C01.WMC.1', p is None, s, 'every write of the required-flags mask is followed by clearing RESPONDED in it (hurry-up ORs the mask into the request)',
                 key='mask:RESPONDED-cleared')
    R.floor('C01.WMC.1', 6)
    R.floor('C01.GRD.1', 3)


def validated_verdicts(P, R, V):
    """GRD.2: a verdict call outside the verdict/gate functions takes a validated, null-checked request."""
    acc, gates = core.gate(P)
    lookups = {'iauth_validate_request', 'iauth_find_request'}
    n = 0
    for f in P.fns.values():
        if f.key in V or f.key in gates:
            continue
        for s in f.calls():
            ts = P.callees(s, False)
            if not ts or ts[0].key not in V:
                continue
            a0 = s.ev['args'][0] if s.ev['args'] else None
            n += 1
            if not is_var(a0):
                R.ob('C01.GRD.2', False, s, 'verdict call with a computed request %s' % sx(a0), key='verdict-arg')
                continue
            v = a0['name']
            if v in f.params:
                # a parameter: the callers are responsible; every caller must itself be a checked site (one level)
                R.ob('C01.GRD.2', f.unit == 'modules/iauth_core.c', s, 'verdict on the function\'s own request parameter inside the core', key='verdict-param:%s' % f.name, nontrivial=False)
                continue

            def on_event(st, t, v=v):
                ev = t.ev
                if ev['k'] in ('store', 'decl'):
                    tgt = ev.get('lhs') if ev['k'] == 'store' else {'k': 'var', 'name': ev.get('var')}
                    if is_var(tgt, v):
                        val = ev.get('rhs') if ev['k'] == 'store' else ev.get('init')
                        if isinstance(val, dict) and val.get('k') == 'callref' and val.get('callee') in lookups:
                            return 'looked-up'
                        return 'other'
                return st

            def on_edge(st, e, v=v):
                r = rules.edge_rel(e)
                if r and is_var(r[0], v) and const_of(r[2]) == 0 and st == 'looked-up':
                    return 'valid' if r[1] == '!=' else 'null'
                return st
            before, _, sin, bout = f.forward('uninit', on_event, on_edge)
            sts = before.get(s.key, set())
            R.ob('C01.GRD.2', bool(sts) and sts <= {'valid'}, s,
                 '%s(%s) takes a request obtained from the validating lookup and null-checked (states: %s)' % (s.ev['callee'], v, sorted(sts)),
                 key='verdict-validated:%s' % s.ev['callee'])
    R.floor('C01.GRD.2', 1, 'verdict calls outside the core')


def null_tolerant_handlers(P, R):
    """GRD.3 second half: handlers that may be handed NULL test it before any dereference."""
    rd, disp = core.reader_dispatch(P)
    d = rules.Deref(P)
    for s, h, vs in disp:
        for j, a in enumerate(s.ev['args']):
            if is_var(a) and a.get('t') == uar.REQ_T:
                bad = d.deref(h, j)
                R.ob('C01.GRD.3', not bad, s, '%s tests its request for NULL before using it%s' % (h.name, (' [' + d.why(h, j) + ']') if bad else ''),
                     key='nulltest:%s' % h.name)


def retire_hooks_silent(P, R, rule='C01.WMC.4'):
    """The handlers that finish a client (the server's D and T, and the verdict functions through them) tell the modules
    through a slot of the module record.  Whatever a module installs there runs for a client that is finished: it may
    tidy its own state, but it may not reach the sender - a class assigned at that point writes a U line (or anything
    else) for a client the server has already registered or dropped."""
    em = core.emitters(P)
    slots = P.slots()
    n = 0
    for f in P.unit_fns(core.sender(P).unit):
        if not (retire_name(P, f)):
            continue
        for s in f.sites():
            if s.ev['k'] == 'call' and not s.ev.get('callee') and (s.ev.get('slot') or '').startswith('iauth_module::'):
                targets = sorted(slots.get(s.ev['slot'], ()))
                loud = [k for k in targets if k in em]
                n += 1
                R.ob(rule, not loud, s, 'what the modules install in the slot %s (called when a client is finished) cannot reach the sender (installed: %s%s)' % (
                    s.ev['slot'].split('::')[1], ', '.join(P.fns[k].name for k in targets) or 'nothing', ('; reaching the sender: ' + ', '.join(P.fns[k].name for k in loud)) if loud else ''),
                    key='retire-hook:%s' % s.ev['slot'].split('::')[1], nontrivial=bool(targets))
    R.floor(rule, 2, 'module slots called by the retiring handlers')


def announcement_retires_holder(P, R, rule='C01.MPT.5'):
    """The server re-uses an id only once its previous holder is gone.  Whatever the announcement handler makes of the
    new line - accept it, or refuse it because it is short or unreadable - a request still stored under that id is the
    previous holder's: left in the table it receives the new client's later lines, and a verdict built from it (its
    address, its port, its account) is written for a client that was never checked.  Every entry->exit path of the
    handler therefore settles the holder: inserts into the table (the insert replaces and disposes of the old node),
    or looks the id up and retires what it finds."""
    rd, disp = core.reader_dispatch(P)
    hs = [h for s, h, vs in disp if ord('C') in (vs or ())]
    if not hs:
        raise AnalysisBroken('the dispatch has no handler for the announcement (C)')
    h = hs[0]
    rp = core.retire_pred(P)
    retiring = {f.key for f in P.unit_fns(h.unit) if any(rp(s) for s in f.sites())}

    def lookup_var(s):
        ev = s.ev
        val = ev.get('rhs') if ev['k'] == 'store' else ev.get('init') if ev['k'] == 'decl' else None
        if isinstance(val, dict) and val.get('k') == 'callref' and val.get('callee') == 'set_find':
            tgt = ev.get('lhs') if ev['k'] == 'store' else {'k': 'var', 'name': ev.get('name')}
            if is_var(tgt) or ev['k'] == 'decl':
                return tgt.get('name')
        return None

    def on_event(st, s):
        ev = s.ev
        if st == 'S':
            return st
        if ev['k'] == 'call':
            if ev.get('callee') == 'set_insert' and ev['args'] and is_var(ev['args'][0], uar.TABLE):
                return 'S'
            if rp(s):
                return 'S'
            if any(t.key in retiring for t in P.callees(s, False)) and isinstance(st, tuple) and any(is_var(a, st[1]) for a in ev['args']):
                return 'S'
            return st
        v = lookup_var(s)
        if v:
            return ('L', v)
        return st

    def on_edge(st, e):
        if isinstance(st, tuple):
            r = e.rel()
            if r is not None and const_of(r[2]) == 0:
                l = r[0]
                if isinstance(l, dict) and l.get('k') == 'bin' and l.get('op') == '=':
                    l = l.get('l')
                if is_var(l, st[1]) and r[1] == '==':
                    return 'S'       # nothing is stored under the id
        return st
    # the holder may already be settled when the handler is entered: the dispatch looked the id up and retired what it
    # found before handing the line over (on every path to every call of the handler, counted afresh for each line read)
    entry = 'U'
    dsites = [s for s, hh, vs in disp if hh is h]
    if dsites:
        def rd_event(st, s):
            if s.ev['k'] == 'call' and s.ev.get('callee') == 'evbuffer_readln':
                return 'U'
            if any(isinstance(x, dict) and x.get('k') == 'callref' and x.get('callee') == 'evbuffer_readln' for ex in rules.event_exprs(s.ev) for x in walk(ex)):
                return 'U'
            if s.ev['k'] == 'call' and s.ev.get('callee') == 'set_insert':
                return st
            return on_event(st, s)
        rb, _, _, _ = rd.forward('U', rd_event, on_edge)
        if all(rb.get(s.key) and rb[s.key] == {'S'} for s in dsites):
            entry = 'S'
    _, at_exit, _, _ = h.forward(entry, on_event, on_edge)
    looks = [s for s in h.calls('set_find') if s.ev['args'] and is_var(s.ev['args'][0], uar.TABLE)]
    ins = [s for s in h.calls('set_insert') if s.ev['args'] and is_var(s.ev['args'][0], uar.TABLE)]
    if not ins:
        raise AnalysisBroken('%s never inserts into the request table' % h.name)
    bad = sorted(str(x) for x in at_exit if x != 'S')
    R.ob(rule, not bad, h, 'every path through %s settles the previous holder of the id: inserts (replacing it) or looks it up and retires it%s (%d insert(s), %d lookup(s)%s)' % (
        h.name, ' - the dispatch has done so before every call' if entry == 'S' else '', len(ins), len(looks), ('; a path returns with the holder %s' % ('never looked for' if 'U' in bad else 'found and left in place')) if bad else ''),
        key='holder-settled:%s' % h.name, nontrivial=True)


def retire_name(P, f):
    """f is one of the two handlers that retire a request on the server's word (D and T arms of the dispatch)."""
    rd, disp = core.reader_dispatch(P)
    for s, h, vs in disp:
        if h is f and set(vs or ()) & {ord('D'), ord('T')}:
            return True
    return False


def run(P, R, tier):
    retire_hooks_silent(P, R)
    announcement_retires_holder(P, R)
    V, softfns = fmt_rules(P, R)
    verdict_discipline(P, R, V)
    who_may(P, R, V, softfns)
    validated_verdicts(P, R, V)
    junk_inert(P, R, 'C01.GRD.3')
    null_tolerant_handlers(P, R)
    # exhaustiveness: every message of the IAuth protocol that concerns a client's life has a case in the dispatch
    # switch, each with a handler call (a dropped `T` leaves a registered client's request live: a late reply then
    # writes a verdict for a client the server has already registered)
    rd, disp = core.reader_dispatch(P)
    have = {}
    for s, h, vs in disp:
        for v in (vs or []):
            have.setdefault(chr(v), []).append(h.name)
    for letter, what in sorted(PROTOCOL.items()):
        R.ob('C01.TAB.3', letter in have, rd, 'the dispatch switch handles %r (%s)%s' % (letter, what, (' with ' + ', '.join(sorted(set(have.get(letter, []))))) if letter in have else ''), key='letter:%s' % letter)
    R.floor('C01.TAB.3', 10)
    uar.check(P, R, 'C01.UAR.1')
    from ..report import Remap
    from . import c19, c09
    # ids are looked up in the request table: a comparator that mis-orders ids loses live requests
    c19.comparators(P, R, 'C01.ARITH.1')
    # a verdict reaches the server in the step that produced it (one newline, one flush per message)
    c09.sender_body(P, Remap(R, {'C09.FMT.2': 'C01.FMT.2'}))
    # a line split in the wrong place is a line the server never sent: it can announce or decide ids of its own
    from . import c08
    c08.line_splitting(P, R, 'C01.TAB.1')
    # a replaced (re-announced) request is disposed through the table's cleanup, which frees its timer: a timer left
    # behind fires on the stale record and emits a second verdict
    disp = c19.cleanup_callers(P, R, 'C01.WMC.2')
    c19.dispose_guards(P, R, disp, 'C01.WMC.2')
    # ... and the request's own cleanup frees the timer the request was given, whatever the configuration says by then
    from . import c10
    cl10 = c10.cleanup_fn(P, Remap(R, {'C10.MPT.1': 'C01.TMR.1', 'C10.WIRE.1': 'C01.TMR.1'}))
    c10.timer_lifecycle(P, Remap(R, {'C10.WMC.2': 'C01.TMR.1'}), cl10)
    # hurry-up ORs the required flags INTO the request's word: the primitive must be safe when the destination is an operand
    rules.bitset_primitives(P, R, 'C01.TAB.2')
    # what is formatted for one client is not kept for the next (a tag cached in static storage names a retired client)
    from . import c07
    c07.storage_audit(P, Remap(R, {'C07.WMC.1': 'C01.WMC.3', 'C07.WMC.2': 'C01.WMC.3'}))
    # ids, serials and masks are kept in members wide enough for them (id 40000 is a different client from id -25536)
    rules.narrowing_fields(P, R, 'C01.WID.1', ('modules/iauth_core.c', 'modules/iauth_xquery.c', 'modules/iauth_class.c'))
    return EXPLANATION, ASSUMPTIONS, {'verdict_functions': sorted(V)}
