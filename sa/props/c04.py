"""C04 - replies affect only the client instance they were asked about.

Decided: routing-tag writer/reader agreement; reply handlers reach requests only through the
validating lookup, whose non-null return is dominated by the separator, end-of-string, lookup
and serial tests; every effect of a reply is reached only after the awaited-bit test and the
service-name comparison for the same slot index; the serial has one writer.  Not decided:
strtol leniency (sign, 0x, blanks) for tags the daemon never emits."""
import re

from ..facts import AnalysisBroken
from ..model import sx, walk, is_var, is_field, const_of, vars_in, root_var, same
from .. import rules, core, holds, uar

EXPLANATION = (
    'Rules: (TAB.1) the routing tag is written by one snprintf with a literal %x<sep>%x format bound to '
    '(client, serial) and read back by strtol/strtoul base 16 around the same separator with an '
    'end-of-string test; (GRD.1) the non-null return of the validating lookup is dominated by the '
    'separator test, the end test, the successful table lookup by the parsed id and serial == '
    'req->serial; (WMC.1) implementers of the reply slots (and what they call in their unit) obtain '
    'requests only from that lookup; (GRD.2) a finite dataflow over the reply handler with the atoms '
    '"awaiting-mask bit of index i set" and "service name equals slot i\'s name" (reset when i changes) '
    'shows both hold at every effect: stores through request/client/service pointers and calls that '
    'emit or re-evaluate; (GRD.3) the lookup loop passes over a slot only because it is not awaited, empty or '
    'named differently; (WMC.2) the serial counter is only pre-incremented in the announce handler '
    'and a request\'s serial is assigned only from it; (WIRE.1) the unlinked slot enters through the '
    'same handler.  strtol leniency is noted, not claimed.'
    ' Rounds 8-9: (WMC.6) the core\'s handlers of X and x call nothing that reaches the sender.'
    ' Hunt round 1: (TAB.3) where a reply is acted on (the awaited bit given back, a verdict), what the path learned about the text rules out every decoy that merely begins like a keyword (OKAY, NOTICE, AGAINST, MOREOVER ...): the keyword was compared whole and the byte after it found to be the terminator or the blank; (WMC.2) a lookup on a refusing path of the announcement handler is excused only when its result goes nowhere but to the withdrawing handler.')
ASSUMPTIONS = ['clang 14 CFG', 'strtol/strtoul(base 16) accept exactly what %x prints plus lenient forms the daemon never emits']


def tag_tables(P, R):
    w = P.need_fn('iauth_routing')
    sn = [s for s in w.calls('snprintf')]
    fmt = rules.fmt_literal(sn[0].ev, 2) if sn else None
    m = re.fullmatch(r'%x(.)%x', fmt or '')
    R.ob('C04.TAB.1', bool(m), sn[0] if sn else w, 'the routing tag is written with a literal %%x<sep>%%x format (found %r)' % fmt, key='writer-format')
    sepch = ord(m.group(1)) if m else None
    if sn and m:
        a = sn[0].ev['args']
        ok = len(a) == 5 and is_field(a[3], 'client', core.REQ_REC) and is_field(a[4], 'serial', core.REQ_REC)
        R.ob('C04.TAB.1', ok, sn[0], 'the tag is bound to (client id, serial) of the request', key='writer-binding')
    r = P.need_fn('iauth_validate_request')
    p0 = r.params[0]
    idv = serv = None
    parse = []
    for s in r.stores():
        rhs = s.ev.get('rhs')
        if rhs and rhs.get('k') == 'callref' and rhs.get('callee') in ('strtol', 'strtoul', 'strtoll', 'strtoull'):
            parse.append((s, rhs))
    ok16 = len(parse) == 2 and all(const_of(c['args'][2]) == 16 for _, c in parse)
    R.ob('C04.TAB.1', ok16, parse[0][0] if parse else r, 'the reader parses two base-16 numbers (found %d parse calls)' % len(parse), key='reader-base16')
    if len(parse) == 2:
        (s1, c1), (s2, c2) = sorted(parse, key=lambda t: t[0].line)
        idv, serv = s1.ev['lhs']['name'], s2.ev['lhs']['name']
        R.ob('C04.TAB.1', is_var(c1['args'][0], p0), s1, 'the id is parsed from the start of the tag', key='reader-id-start', nontrivial=False)
        a0 = c2['args'][0]
        endp = c1['args'][1]
        endv = endp['e']['name'] if endp.get('k') == 'un' and endp['op'] == '&' and is_var(endp['e']) else None
        ok = a0.get('k') == 'bin' and a0['op'] == '+' and is_var(a0['l'], endv) and const_of(a0['r']) == 1
        R.ob('C04.TAB.1', ok, s2, 'the serial is parsed right after the separator (from %s)' % sx(a0), key='reader-serial-start')
    return r, sepch, idv, serv


def _canonical(r, s, v, gs):
    """the received text is compared (strcmp == 0) with the buffer the tag writer filled for the request returned"""
    if not is_var(v):
        return False
    p0 = r.params[0]
    bufs = set()
    for t in r.calls('iauth_routing'):
        a = t.ev['args']
        if len(a) >= 2 and is_var(a[0], v['name']) and is_var(a[1]):
            bufs.add(a[1]['name'])
    for g in gs:
        l = g[0]
        if isinstance(l, dict) and l.get('k') == 'callref' and l.get('callee') in ('strcmp', 'memcmp') and g[1] == '==' and const_of(g[2]) == 0:
            names = [x['name'] for x in l['args'][:2] if is_var(x)]
            if p0 in names and any(b in names for b in bufs):
                return True
    return False


def validated_return(P, R, r, sepch, idv, serv):
    rets = [(s, s.ev['val']) for s in r.sites() if s.ev['k'] == 'ret' and s.ev.get('val') is not None and const_of(s.ev['val']) != 0]
    # single-exit form: `found = NULL; ... if (all tests) found = req; return found;` - the non-null "return" is the place
    # where the result variable is given a non-null value
    expanded = []
    for s, v in rets:
        if is_var(v) and v.get('sc') == 'local':
            ds = r.local_defs(v['name'])
            vals = [(d, d.ev.get('rhs') if d.ev['k'] == 'store' else d.ev.get('init')) for d in ds]
            if len(vals) >= 2 and any(x is not None and const_of(x) == 0 for _, x in vals) and all(x is None or const_of(x) == 0 or is_var(x) for _, x in vals):
                for d, x in vals:
                    if x is not None and const_of(x) != 0:
                        expanded.append((d, x))
                continue
        expanded.append((s, v))
    rets = expanded
    R.ob('C04.GRD.1', len(rets) >= 1, rets[0][0] if rets else r, 'the lookup has a non-null return', key='has-return', nontrivial=False)
    for s, v in rets:
        gs = r.guards(s.bid)

        def has(pred):
            return any(pred(g) for g in gs)
        sep_ok = has(lambda g: g[0].get('k') in ('idx', 'un') and g[1] == '==' and const_of(g[2]) == sepch)
        end_ok = has(lambda g: g[0].get('k') in ('idx', 'un') and g[1] == '==' and const_of(g[2]) == 0)
        found_ok = is_var(v) and has(lambda g: is_var(g[0], v['name']) and g[1] == '!=' and const_of(g[2]) == 0)
        ser_ok = has(lambda g: g[1] == '==' and ((is_var(g[0], serv) and is_field(g[2], 'serial', core.REQ_REC)) or (is_var(g[2], serv) and is_field(g[0], 'serial', core.REQ_REC))))
        canon_here = _canonical(r, s, v, gs)
        # the comparison with the writer's own text makes the separator / end / serial tests redundant - as tests that
        # ACCEPT.  A test that is still there also REJECTS: it must not refuse the very text the writer produces, so a
        # serial test that is kept compares the parsed serial with the found request's own serial, nothing else
        ser_tests = [g for g in gs if (is_var(g[0], serv) or is_var(g[2], serv)) and g[1] in ('==', '!=')]
        for g in ser_tests:
            other = g[2] if is_var(g[0], serv) else g[0]
            R.ob('C04.GRD.1', is_field(other, 'serial', core.REQ_REC), s, 'the serial parsed from the tag is compared with the serial of the request found and nothing else (%s)' % sx(other), key='serial-test-own')
        for nm, ok in (('the separator test', sep_ok), ('the end-of-string test', end_ok), ('a successful table lookup', found_ok), ('serial == req->serial', ser_ok)):
            if canon_here and nm != 'a successful table lookup':
                # the exact comparison with the writer's output for the request found implies it
                R.ob('C04.GRD.1', True, s, 'the non-null return is dominated by %s (or by the comparison with the writer\'s own text, which implies it)' % nm, key='return:%s' % nm, nontrivial=ok)
            else:
                R.ob('C04.GRD.1', ok, s, 'the non-null return is dominated by %s' % nm, key='return:%s' % nm)
        # the library conversions are lenient (white space, signs, "0x", values that wrap into the compared width): a
        # text other than the one the writer produced must not name the instance, so the received text is compared
        # with the writer's own output for the request found
        lenient = [t for t in r.calls() if t.ev.get('callee') in ('strtol', 'strtoul', 'strtoll', 'strtoull', 'atoi', 'atol', 'sscanf')]
        if lenient and is_var(v):
            p0 = r.params[0]
            bufs = set()
            for t in r.calls('iauth_routing'):
                a = t.ev['args']
                if len(a) >= 2 and is_var(a[0], v['name']) and is_var(a[1]):
                    bufs.add(a[1]['name'])

            def canon(g):
                l = g[0]
                if not (isinstance(l, dict) and l.get('k') == 'callref' and l.get('callee') in ('strcmp', 'memcmp') and g[1] == '==' and const_of(g[2]) == 0):
                    return False
                names = [x['name'] for x in l['args'][:2] if is_var(x)]
                return p0 in names and any(b in names for b in bufs)
            R.ob('C04.GRD.1', has(canon), s, 'the non-null return is dominated by the received tag being exactly the text the tag writer produces for that request (the reader uses %s, which also accepts signs, "0x" and values that wrap)' % '/'.join(sorted({t.ev['callee'] for t in lenient})),
                 key='return:canonical')
        # the request comes from the table, keyed by the parsed id
        if is_var(v):
            defs = r.local_defs(v['name'])
            okd = bool(defs) and all((d.ev.get('rhs') or d.ev.get('init') or {}).get('callee') == 'set_find'
                                     and is_var((d.ev.get('rhs') or d.ev.get('init'))['args'][0], uar.TABLE)
                                     and idv in vars_in((d.ev.get('rhs') or d.ev.get('init'))['args'][1]) for d in defs)
            R.ob('C04.GRD.1', okd, s, 'the returned request is the table entry for the parsed id', key='return:lookup-by-id')
    # the tag's numbers are compared as written: the locals that hold them are as wide as the fields they are compared with
    from .. import numeric

    def vtype(name):
        for s in r.sites():
            if s.ev['k'] == 'decl' and s.ev.get('var') == name:
                return s.ev.get('t')
        for p in r.param_info:
            if p['name'] == name:
                return p.get('t')
        return None
    # the first int field of the request is the table key
    for var, field, what in ((serv, 'serial', 'serial'), (idv, 'client', 'id')):
        ft = (P.record_field(core.REQ_REC, field) or {}).get('t')
        tv, tf = numeric.type_range(vtype(var) or ''), numeric.type_range(ft or '')
        if not tf:
            continue
        # a narrower local is harmless only where it is not compared at all (the comparison with the writer's text decides);
        # where the comparison is kept, a truncated value refuses the writer's own tags once the field outgrows the local
        compared = any((is_var(g[0], var) or is_var(g[2], var)) and g[1] in ('==', '!=') and (is_field(g[0], field, core.REQ_REC) or is_field(g[2], field, core.REQ_REC)) for s_, v_ in rets for g in r.guards(s_.bid))
        R.ob('C04.GRD.1', (bool(tv) and tv[0] <= tf[0] and tv[1] >= tf[1]) or (not compared and all(_canonical(r, s_, v_, r.guards(s_.bid)) for s_, v_ in rets)), r,
             'the parsed %s is held in a type (%s) that can represent every value of the request field it is compared with (%s)' % (what, vtype(var), ft), key='width:%s' % what)
    R.floor('C04.GRD.1', 5)
    return bool(rets) and all(_canonical(r, s, v, r.guards(s.bid)) for s, v in rets)


def tag_capacity(P, R, rule='C04.TAB.2'):
    """Every client's tag can be written: the buffers callers hand to the tag writer hold the longest text its format
    can produce (two hexadecimal words and a separator), so no client - whatever its id and serial - is queried under
    the "???" fallback, which no reply can be matched with."""
    from .. import bnd
    w = None
    wf = None
    for f in P.unit_fns('modules/iauth_core.c'):
        for s in f.calls('snprintf'):
            fmt = rules.fmt_literal(s.ev, 2)
            if fmt and '_' in fmt and all(is_field(a, n) for a, n in zip(s.ev['args'][3:5], ('client', 'serial'))):
                w, wf = bnd.fmt_width(P, f, fmt, s.ev['args'][3:]), f
    if w is None:
        R.note('%s: tag writer not found; not judged' % rule)
        return
    n = 0
    for f in P.fns.values():
        if f.unit.startswith('tests/'):
            continue
        for s in f.calls():
            if wf not in P.callees(s, False) or len(s.ev['args']) < 3:
                continue
            buf = s.ev['args'][1]
            ext = buf.get('arr') if isinstance(buf, dict) and buf.get('k') in ('var', 'mem') else None
            size = const_of(s.ev['args'][2])
            n += 1
            R.ob(rule, ext is not None and ext >= w + 1 and (size is None or size >= w + 1), s, 'the tag buffer %s (%s bytes) holds the longest tag (%d characters and the terminator)' % (sx(buf), ext, w), key='tag-capacity:%s' % f.name)
    R.floor(rule, 2, 'callers of the tag writer')


def slot_impls(P):
    out = {}
    for slot in ('iauth_module::x_reply', 'iauth_module::x_unlinked'):
        for k in P.slots().get(slot, ()):
            out[k] = P.fns[k]
    if not out:
        raise AnalysisBroken('no implementer of the reply slots')
    return out


def lookup_discipline(P, R):
    impls = slot_impls(P)
    cl = {}
    for f in impls.values():
        for k, g in P.closure([f], may=False).items():
            if g.unit == f.unit:
                cl[k] = g
    n = 0
    for f in cl.values():
        for s in f.calls():
            c = s.ev.get('callee')
            if c == 'iauth_find_request' or (c == 'set_find' and s.ev['args'] and is_var(s.ev['args'][0], uar.TABLE)):
                R.ob('C04.WMC.1', False, s, 'a reply handler looks a request up by id alone (%s): the serial is not validated' % c, key='raw-lookup')
        for v in uar.req_vars(f):
            if v in f.params:
                continue
            for d in f.local_defs(v):
                val = d.ev.get('rhs') or d.ev.get('init') or {}
                n += 1
                R.ob('C04.WMC.1', val.get('k') == 'callref' and val.get('callee') == 'iauth_validate_request', d,
                     'request variable %s of a reply handler comes from the validating lookup (found %s)' % (v, sx(val)), key='req-source')
    R.floor('C04.WMC.1', 1)
    # the unlinked slot goes through the reply handler
    xr = set(P.slots().get('iauth_module::x_reply', ()))
    for k in P.slots().get('iauth_module::x_unlinked', ()):
        f = P.fns[k]
        if k in xr:
            continue
        calls = [s for s in f.calls() if any(t.key in xr for t in P.callees(s, False))]
        ok = bool(calls) and all(is_var(s.ev['args'][1], f.params[1]) and is_var(s.ev['args'][0], f.params[0]) for s in calls)
        p = f.path_avoiding(None, lambda t: t in calls, from_entry=True)
        R.ob('C04.WIRE.1', ok and p is None, f, 'the unlinked notice is handled by the reply handler with the same service and routing tag', key='unlinked-wiring')
    R.floor('C04.WIRE.1', 1)
    return cl


def effects_guarded(P, R, cl):
    """GRD.2 over every function of the reply closure that tests the awaiting mask."""
    sends = rules.May(P, lambda s: rules.is_call(s, 'iauth_send'))
    n = 0
    for f in cl.values():
        idxv = None
        for b in f.blocks.values():
            c = (b.get('term') or {}).get('cond')
            for x in walk(c):
                if x.get('k') == 'bin' and x['op'] == '&' and any(y.get('k') == 'mem' and y['field'].endswith('_mask') for y in walk(x['l'])) \
                        and x['r'].get('k') == 'bin' and x['r']['op'] == '<<':
                    vs = vars_in(x['r']['r'])
                    if vs:
                        idxv = sorted(vs)[0]
        if idxv is None:
            # no test of a client mask bit at all: if the function walks the service table and has effects,
            # take the table subscript as the slot index so that every effect is reported as unguarded
            for s in f.sites():
                for ex in rules.event_exprs(s.ev):
                    for x in walk(ex):
                        if x.get('k') == 'idx' and any(y.get('k') == 'mem' and y['field'] == 'vec' for y in walk(x['base'])) and vars_in(x['index']):
                            idxv = sorted(vars_in(x['index']))[0]
        if idxv is None:
            continue
        ptrs = set()
        for s in f.sites():
            for ex in rules.event_exprs(s.ev):
                for x in walk(ex):
                    if x.get('k') == 'var' and x.get('sc') in ('local', 'param') and x.get('t', '').replace('const ', '').startswith('struct ') and x['t'].endswith('*'):
                        ptrs.add(x['name'])

        def awaited(r):
            l, op, rr = r
            return (isinstance(l, dict) and l.get('k') == 'bin' and l['op'] == '&' and is_field(l['l'], holds.MASK)
                    and l['r'].get('k') == 'bin' and l['r']['op'] == '<<' and is_var(l['r']['r'], idxv)
                    and const_of(rr) == 0 and op in ('!=', '>'))

        def named(r):
            l, op, rr = r
            if not (isinstance(l, dict) and l.get('k') == 'callref' and l.get('callee') in ('strcmp', 'strcasecmp') and const_of(rr) == 0 and op == '=='):
                return False
            a = l['args']

            def is_service_word(x):
                if is_var(x, f.params[0]):
                    return True
                if is_var(x) and x.get('sc') == 'local':       # the parameter of a folded search helper
                    sd = f.single_def(x['name'])
                    return bool(sd) and is_var(sd[1], f.params[0])
                return False
            return any(is_service_word(x) for x in a) and any(is_field(x, 'name') for x in a)

        # variables that only ever hold a copy of the slot index (the value a folded search helper hands back)
        same_idx = {idxv}
        grew = True
        while grew:
            grew = False
            for t in f.stores():
                if t.ev['k'] == 'store' and is_var(t.ev.get('lhs')) and t.ev.get('op') == '=' and t.ev['lhs']['name'] not in same_idx:
                    ds = f.local_defs(t.ev['lhs']['name'])
                    vals = [(d.ev.get('rhs') if d.ev['k'] == 'store' else d.ev.get('init')) for d in ds]
                    if vals and all((is_var(v) and v['name'] in same_idx) or (isinstance(v, dict) and v.get('k') == 'mem' and v.get('field') == 'used') for v in vals) and any(is_var(v) and v['name'] in same_idx for v in vals):
                        same_idx.add(t.ev['lhs']['name'])
                        grew = True

        def slotvar(s):
            """srv = table[idxv] keeps the name test tied to the index."""
            ev = s.ev
            return ev['k'] == 'store' and is_var(ev.get('lhs')) and ev.get('op') == '=' and (ev.get('rhs') or {}).get('k') == 'idx' and is_var(ev['rhs']['index']) and ev['rhs']['index']['name'] in same_idx

        def on_edge(st, e):
            r = rules.edge_rel(e)
            if not r:
                return st
            a, nm, lim, eqs = st
            if awaited(r):
                a = True
            if named(r):
                nm = True
            l, op, rr = r
            # a variable known to EQUAL an expression (the "not found" value handed back by a folded search helper):
            # a later comparison with that expression that excludes equality cannot be taken
            if is_var(l) and (l['name'], sx(rr)) in eqs and op in ('<', '>', '!='):
                return None
            if is_var(l, idxv) and not const_of(rr) is not None:
                k = {'>=': 'ge', '>': 'gt', '<': 'lt', '<=': 'le'}.get(op)
                if k:
                    # only strictly contradictory bounds prune the path: `>=` then `<=` leaves equality possible
                    if lim and lim[1] == sx(rr) and frozenset((lim[0], k)) in (frozenset(('ge', 'lt')), frozenset(('gt', 'le')), frozenset(('gt', 'lt'))):
                        return None
                    lim = (k, sx(rr))
            return (a, nm, lim, eqs)

        def on_event(st, s):
            a, nm, lim, eqs = st
            ev = s.ev
            if ev['k'] == 'store' and is_var(ev.get('lhs')) and ev.get('op') == '=':
                v = ev['lhs']['name']
                rhs = ev.get('rhs') or {}
                eq2 = {(x, y) for (x, y) in eqs if x != v}
                if rhs.get('k') == 'mem' and rhs.get('field') == 'used':
                    eq2.add((v, sx(rhs)))
                elif is_var(rhs):
                    eq2 |= {(v, y) for (x, y) in eqs if x == rhs['name']}
                eqs = frozenset(eq2)
                st = (a, nm, lim, eqs)
            if ev['k'] == 'store' and is_var(ev.get('lhs'), idxv):
                return (False, False, None, eqs)
            if ev['k'] == 'store' and is_var(ev.get('lhs')) and ev['lhs']['name'] in ptrs and not slotvar(s) and ev['lhs'].get('t', '').replace('const ', '').startswith('struct iauth_xquery_service'):
                # a copy of another service pointer keeps what is known about it (the folded helper hands its match back)
                if is_var(ev.get('rhs')) and ev['rhs']['name'] in ptrs:
                    return st
                return (a, False, lim, eqs)
            return st
        before, _, sin, bout = f.forward((False, False, None, frozenset()), on_event, on_edge)
        for s in f.sites():
            ev = s.ev
            eff = None
            if ev['k'] == 'store':
                rv = root_var(ev['lhs'])
                if rv is not None and rv['name'] in ptrs and not is_var(ev['lhs']):
                    eff = 'store %s %s' % (sx(ev['lhs']), ev.get('op'))
            elif ev['k'] == 'call':
                c = ev.get('callee')
                ts = P.callees(s, False)
                if ts and ts[0].unit.startswith('modules/') and c not in ('iauth_validate_request',) and (sends.site_may(s) or c == 'iauth_check_request' or holds.FieldWrites(P).fields(ts[0]) & {'account', 'holds', 'soft_holds', 'flags'}):
                    eff = 'call %s' % c
            if not eff:
                continue
            sts = before.get(s.key, set())
            ok = bool(sts) and all(st[0] and st[1] for st in sts)
            n += 1
            R.ob('C04.GRD.2', ok, s, '%s happens only for a service that is awaited (mask bit of the slot) and named in the reply'
                 % eff + ('' if ok else ' - reached with awaited=%s name-matched=%s' % (sorted({st[0] for st in sts}), sorted({st[1] for st in sts}))),
                 key='effect:%s' % eff)
    R.floor('C04.GRD.2', 10, 'effects of a reply')


def lookup_skips(P, R, cl, rule='C04.GRD.3'):
    """The search for the answering service may pass over a slot only because its awaited bit is clear,
    the slot is empty, or the name differs; any other reason (e.g. the service no longer being
    configured) would drop a reply that is owed."""
    n = 0
    for f in cl.values():
        idxv = None
        tests = []
        for b in f.blocks.values():
            c = (b.get('term') or {}).get('cond')
            for x in walk(c):
                if x.get('k') == 'bin' and x['op'] in ('&', '>>') and any(y.get('k') == 'mem' and y['field'].endswith('_mask') for y in walk(x['l'])):
                    vs = vars_in(x['r'])
                    if vs:
                        idxv = sorted(vs)[0]
        if idxv is None:
            continue
        incs = {s.bid for s in f.stores() if s.ev['k'] == 'store' and is_var(s.ev.get('lhs'), idxv) and s.ev.get('op') == '++'}
        live = f.reachable_blocks()
        # the loop body: blocks between the loop head and the increment
        edges = []
        for bid in live:
            for e in f.out[bid]:
                if e.dst in incs and bid not in incs:
                    if e.label == 'fall' and not f.block_sites(bid):
                        edges.extend(x for x in f.inn[bid] if x.src in live)
                    else:
                        edges.append(e)
        for e in edges:
            r = rules.edge_rel(e)
            why = None
            if r:
                l, op, rr = r
                if isinstance(l, dict) and l.get('k') == 'bin' and l['op'] == '&' and is_field(l['l'], holds.MASK) and op == '==' and const_of(rr) == 0:
                    why = 'the service is not awaited'
                elif is_var(l) and l.get('t', '').replace('const ', '').startswith('struct iauth_xquery_service') and op == '==' and const_of(rr) == 0:
                    why = 'the slot is empty'
                elif isinstance(l, dict) and l.get('k') == 'callref' and l.get('callee') in ('strcmp', 'strcasecmp') and op == '!=' and const_of(rr) == 0:
                    why = 'the name differs'
            n += 1
            R.ob(rule, why is not None, P.relloc((f.blocks[e.src].get('term') or {}).get('loc', '?')),
                 'the reply lookup passes over a slot only for a documented reason (%s)' % (why or 'edge %s' % e.describe()), key='lookup-skip:%s' % (why or e.describe()))
            R.obligations[-1]['function'] = f.name
    R.floor(rule, 2, 'skip edges of the reply lookup')


def reader_is_canonical(P):
    from ..report import Remap
    class _N(object):
        def __getattr__(self, n):
            return lambda *a, **k: True
    r_, sepch, idv, serv = tag_tables(P, _N())
    return validated_return(P, _N(), r_, sepch, idv, serv)


def serial_writers(P, R, canonical=False):
    rd, disp = core.reader_dispatch(P)
    announce = [h for (s, h, vs) in disp if vs and ord('C') in vs]
    n = 0
    for f in P.fns.values():
        for s in f.stores():
            if s.ev['k'] != 'store':
                continue
            lhs = s.ev['lhs']
            if is_var(lhs, 'iauth_serial'):
                n += 1
                R.ob('C04.WMC.2', f in announce and s.ev.get('op') == '++', s, 'the serial counter only moves by ++ in the announce handler', key='serial-counter')
            if is_field(lhs, 'serial', core.REQ_REC):
                n += 1
                rhs = s.ev.get('rhs')
                stepped = f in announce and rhs is not None and rhs.get('k') == 'un' and rhs['op'] == '++' and is_var(rhs['e'], 'iauth_serial')
                # pre-increment keeps 0 - what a lenient reader makes of an empty number - out of use; a reader that
                # compares the whole text with the writer's output does not need that
                ok = stepped and (not rhs.get('postfix') or canonical)
                R.ob('C04.WMC.2', ok, s, 'a request\'s serial is assigned once, from the stepped counter (never the value a lenient reader gives an empty number)', key='request-serial')
    # every announcement starts a new instance: apart from a short line, no path through the announce handler skips
    # the serial assignment (keeping the old record would hand its pending answers to whoever reuses the id)
    for h in announce:
        ser = [t for t in h.stores() if t.ev['k'] == 'store' and is_field(t.ev['lhs'], 'serial', core.REQ_REC)]
        if not ser:
            continue
        short = []
        for bid in h.reachable_blocks():
            for e in h.out[bid]:
                r = rules.edge_rel(e)
                if r and is_var(r[0]) and r[0]['name'] in h.params and r[0].get('t') in ('int', 'size_t', 'unsigned int') and r[1] in ('<', '<=') and isinstance(const_of(r[2]), int):
                    short.append(e)
        # an announcement may be refused outright (a short line, an unreadable address, an id nothing can name) - but then
        # before anything is done with it: on the paths that avoid the serial assignment nothing is put into the table and
        # no request is written.  Path-sensitive: a creating helper that refuses returns NULL, and the caller's test of that
        # result keeps its refusing path apart from the rest
        def on_event_(st, t):
            if t in ser:
                return 'serial'
            return st
        before_, _, _, _ = h.forward('none', on_event_)
        ser_blocks = {t.bid for t in ser}

        # ... and the refusal rests on the announcement alone, not on what the table holds (an announcement "recognised" as
        # the client already known under its id would leave that client's pending answers to whoever re-uses the id)
        def looks_up(t):
            if t.ev['k'] == 'call' and (t.ev.get('callee') in ('set_find', 'set_lower') or any(g.name in ('iauth_find_request', 'iauth_validate_request') for g in P.callees(t, True))):
                return True
            return any(isinstance(x, dict) and x.get('k') == 'callref' and x.get('callee') in ('set_find', 'set_lower', 'iauth_find_request', 'iauth_validate_request') for ex in rules.event_exprs(t.ev) for x in walk(ex))
        # ... except to withdraw it: the server using an id again says that its previous holder is gone, and a lookup whose
        # result goes nowhere but to the handler of the server's own withdrawal (D) decides nothing about the new client
        rp = core.retire_pred(P)
        retiring = {g.key for g in P.unit_fns(h.unit) if any(rp(x) for x in g.sites())}
        excused = set()
        for t in h.sites():
            val = t.ev.get('rhs') if t.ev['k'] == 'store' else t.ev.get('init') if t.ev['k'] == 'decl' else None
            if not (isinstance(val, dict) and val.get('k') == 'callref' and val.get('callee') == 'set_find'):
                continue
            v = t.ev['lhs']['name'] if t.ev['k'] == 'store' and is_var(t.ev.get('lhs')) else t.ev.get('name') if t.ev['k'] == 'decl' else None
            if not v:
                continue

            def ev_(st, u, t=t, v=v):
                if u.key == t.key:
                    return 'held'
                if st == 'held' and u.ev['k'] == 'store' and is_var(u.ev.get('lhs'), v):
                    return 'gone'
                return st
            bf, _, _, _ = h.forward('gone', ev_)
            other = [u for u in h.sites() if u.key != t.key and 'held' in bf.get(u.key, set())
                     and any(is_var(x, v) for ex in rules.event_exprs(u.ev) for x in walk(ex))
                     and not (u.ev['k'] == 'call' and any(g.key in retiring for g in P.callees(u, False)))
                     and not (u.ev['k'] == 'store' and is_var(u.ev.get('lhs'), v))]
            if not other and any(u.ev['k'] == 'call' and any(g.key in retiring for g in P.callees(u, False)) and any(is_var(a, v) for a in u.ev['args']) for u in h.sites()):
                excused.add(t.key)
                excused.update(c.key for c in h.calls('set_find') if c.bid == t.bid and c.idx <= t.idx and c.ev['args'] and is_var(c.ev['args'][0], uar.TABLE))
        acted = [t for t in h.sites() if 'none' in before_.get(t.key, set()) and t.bid not in ser_blocks and t.key not in excused and (
            (t.ev['k'] == 'call' and t.ev.get('callee') == 'set_insert') or looks_up(t) or
            (t.ev['k'] == 'store' and any(x.get('k') == 'mem' and x.get('rec') == core.REQ_REC for x in walk(t.ev.get('lhs') or {}))))]
        R.ob('C04.WMC.2', not acted, acted[0] if acted else ser[0], 'every announcement that is acted on is given a fresh serial (on the paths of %s that avoid the assignment nothing is stored in a request or put into the table)' % h.name, key='announce-always-new')
    # the serial only tells instances apart while it does not repeat: the request's field is as wide as the counter
    from ..numeric import type_range
    fld = P.record_field(core.REQ_REC, 'serial') or {}
    g = P.global_def('iauth_serial')
    ft, gt = type_range(fld.get('t')), type_range(g[1].get('t')) if g else None
    R.ob('C04.WMC.2', bool(ft) and bool(gt) and ft[0] <= gt[0] and ft[1] >= gt[1], P.need_fn('iauth_validate_request'),
         'the serial stored in a request (%s) holds every value of the serial counter (%s)' % (fld.get('t'), g[1].get('t') if g else None), key='serial-width')
    R.floor('C04.WMC.2', 3)


def reply_words(P, R, rule='C04.WIRE.2'):
    """What the reply handlers judge is what arrived: the service name, the routing tag and the text handed to the
    modules' x_reply / x_unlinked slots are the words of the input line themselves (elements of the dispatcher's
    argument vector), not something the core computed from them - a tag "normalised" on the way is no longer the tag the
    service echoed, and the serial in it was never compared."""
    n = 0
    for f in P.unit_fns('modules/iauth_core.c'):
        for s in f.calls():
            slot = P.call_slot(s)
            if slot not in ('iauth_module::x_reply', 'iauth_module::x_unlinked'):
                continue
            argv = [p['name'] for p in f.param_info if p.get('t', '').replace(' ', '') in ('char**', 'char*[]')]
            for j, a in enumerate(s.ev['args'][:3]):
                n += 1
                ok = isinstance(a, dict) and a.get('k') == 'idx' and is_var(a.get('base')) and a['base']['name'] in argv and const_of(a.get('index')) == j + 1
                R.ob(rule, ok, s, 'argument %d of the %s call is word %d of the input line as it arrived (found %s)' % (j + 1, slot.split('::')[1], j + 1, sx(a)), key='reply-word:%s:%d' % (slot.split('::')[1], j + 1))
    R.floor(rule, 6, 'arguments of the reply slots')


def reply_arms_silent(P, R, rule='C04.WMC.6'):
    """"Every other reply produces no output": the core's handlers of the X and x messages only pass the words on to the
    modules' reply slots; they call nothing that can reach the sender themselves - a malformed or truncated reply line is
    dropped in silence, not reported to the operators."""
    rd, disp = core.reader_dispatch(P)
    em = core.emitters(P)
    n = 0
    for s, h, vs in disp:
        if not (set(vs or ()) & {ord('X'), ord('x')}):
            continue
        for t in h.calls():
            if not t.ev.get('callee'):
                continue        # the slot broadcast: judged by the rules on the modules' handlers
            loud = [g for g in P.callees(t, False) if g.key in em]
            if loud:
                n += 1
                R.ob(rule, False, t, '%s (the core\'s handler of %s) calls %s, which can write to the server channel' % (h.name, '/'.join(sorted(chr(v) for v in vs)), loud[0].name), key='reply-arm-loud:%s' % h.name)
        n += 1
        R.ob(rule, True, h, '%s was searched for direct calls that reach the sender' % h.name, key='reply-arm:%s' % h.name, nontrivial=False)
    R.floor(rule, 2, 'core handlers of the X and x messages')


def run(P, R, tier):
    reply_arms_silent(P, R)
    # a text that merely begins like a keyword is 'every other reply'
    from . import c02 as _c02
    _c02.decoys_unrecognised(P, R, 'C04.TAB.3')
    r, sepch, idv, serv = tag_tables(P, R)
    canonical = validated_return(P, R, r, sepch, idv, serv)
    cl = lookup_discipline(P, R)
    effects_guarded(P, R, cl)
    lookup_skips(P, R, cl)
    serial_writers(P, R, canonical)
    tag_capacity(P, R)
    # the awaiting bit names a service by its slot: slots must not move under a pending client
    from ..report import Remap
    from . import c07
    c07.slot_stability(P, Remap(R, {'C07.WMC.3': 'C04.WMC.3'}))
    # ... and a slot still referenced by a pending client is not handed to another service
    c07.storage_audit(P, Remap(R, {'C07.WMC.1': 'C04.WMC.3'}, keys=('slot-release', 'static-write')))
    reply_words(P, R)
    # a slot is kept for as long as a client awaits it: every awaited mark takes a reference, every clear gives one back
    from .. import holds as _holds
    _holds.refs_discipline(P, R, 'C04.WMC.4')
    # a reply is honoured from an awaited service: a service is awaited only if it was actually asked
    from . import c06
    xq, b = c06.builder(P)
    c06.builder_guards(P, Remap(R, {'C06.MPT.1': 'C04.MPT.1'}), xq, b)
    # serial, slot masks and reference counts distinguish instances only as far as their members are wide
    rules.narrowing_fields(P, R, 'C04.WID.1', ('modules/iauth_core.c', 'modules/iauth_xquery.c', 'modules/iauth_class.c'))
    rules.counter_widths(P, R, 'C04.WID.2', recs=('iauth_xquery_service', 'iauth_request'))
    return EXPLANATION, ASSUMPTIONS
