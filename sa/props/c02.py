"""C02 - no premature acceptance.

Decided: acceptance happens only at the single gate whose guard has all its conjuncts; each
datum flag is set only by the handler of its own message (or hurry-up); a query sent always
leaves the client awaited and soft-held; the +! hard hold is taken and released only on the
no-account <-> account transition; a refusal always reaches the kill.  Not decided:
arithmetic on counter values over histories."""
from ..facts import AnalysisBroken
from ..model import sx, walk, is_var, is_field, const_of, vars_in, root_var
from .. import rules, core, holds

EXPLANATION = (
    'Rules: (WMC.1) iauth_accept has one caller, the gate; (GRD.1) a finite path-sensitive dataflow over '
    'the gate with the atoms holds<=0, !RESPONDED, required-flags subset test, soft_holds<=0, timed-out bit '
    'shows the formula holds AND !RESPONDED AND subset AND (soft OR timed-out) on every path to the accept '
    'call, with stores to the operands resetting the atoms; the timed-out disjunct is accepted only with '
    'the timer callback as its sole writer; (MPT.1) the required mask is recomputed from every registered '
    'module inside the module loop plus the policy-dependent bits, by one function, called on every path of '
    'start-up and unregistration; (WMC.2) who may set which data flag, derived from the dispatch switch and '
    'the documented setters; (GRD.2/MPT.2) soft-hold typestate: soft_holds moves only on the empty<->non-empty '
    'transitions of the awaiting mask, and every query send is followed by marking the service awaited; '
    '(GRD.4) the per-service reference count moves only by ++/--, every awaited mark takes a reference and '
    'every clear gives one back, so a service owing a verdict is never freed; (GRD.3) hard-hold transition signatures; (MPT.3) a NO reply reaches the kill on all paths.  Counter '
    'values over histories are not decided.'
    ' Rounds 8-9: (WIRE.2) the start-up callback that computes the required data is scheduled to run before the first poll; (WIRE.3) the per-client module record is created at the announcement; (MPT.3) every documented form of a refusal (NO, with or without message or blank) reaches the rejecting verdict - decided on what each path learned about the text.')
ASSUMPTIONS = ['clang 14 CFG; uninterpreted boolean atoms; stores to an atom\'s operands reset it',
               'request records are zero-allocated (set_node_alloc -> xmalloc -> calloc)']

DATA_BITS = {'IAUTH_GOT_HOSTNAME', 'IAUTH_GOT_IDENT', 'IAUTH_GOT_NICK', 'IAUTH_GOT_USER_INFO',
             'IAUTH_GOT_PASSWORD', 'IAUTH_GOT_HURRY_UP', 'IAUTH_EMPTY_IDENT', 'IAUTH_TIMED_OUT'}
LETTER_BITS = {'N': {'IAUTH_GOT_HOSTNAME'}, 'd': {'IAUTH_GOT_HOSTNAME'},
               'u': {'IAUTH_GOT_IDENT', 'IAUTH_EMPTY_IDENT'},
               'U': {'IAUTH_GOT_USER_INFO', 'IAUTH_GOT_IDENT'},
               'n': {'IAUTH_GOT_NICK'}, 'P': {'IAUTH_GOT_PASSWORD'}, 'H': {'IAUTH_GOT_HURRY_UP'}}
SETTER_BITS = {'iauth_force_username': {'IAUTH_GOT_IDENT'}, 'iauth_trust_username': {'IAUTH_GOT_IDENT'},
               'iauth_set_hostname': {'IAUTH_GOT_HOSTNAME'}}


def atom_value(i, r):
    """Truth of atom i under relation r (True/False) or None if r says nothing about it."""
    l, op, rr = r
    c = const_of(rr)
    if i in (0, 3):
        fld = holds.HARD if i == 0 else holds.SOFT
        if is_field(l, fld, core.REQ_REC) and c is not None:
            if (op == '==' and c == 0) or (op == '<=' and c <= 0) or (op == '<' and c <= 1):
                return True
            if (op == '!=' and c == 0) or (op == '>' and c >= 0) or (op == '>=' and c >= 1):
                return False
        return None
    if i == 1:
        v = core.bittest_rel(r, 'IAUTH_RESPONDED')
        return None if v is None else (not v)
    if i == 2:
        if isinstance(l, dict) and l.get('k') == 'callref' and l.get('callee') == 'bitset_h_andnot' and c == 0:
            a = l['args']
            if len(a) >= 2 and any(is_var(x, 'iauth_flags') for x in walk(a[0])) and any(core.is_req_flags(x) for x in walk(a[1])):
                return op == '=='
        return None
    if i == 4:
        return core.bittest_rel(r, 'IAUTH_TIMED_OUT')
    return None


ATOMS = ['holds<=0', '!RESPONDED', 'required flags subset of request flags', 'soft_holds<=0', 'TIMED_OUT']


def gate_guard(P, R):
    acc, gates = core.gate(P)
    R.ob('C02.WMC.1', len(gates) == 1, acc, 'iauth_accept is called only from the gate (callers: %s)' % sorted(gates), key='accept-callers')
    for g in gates.values():
        def on_edge(st, e):
            r = rules.edge_rel(e)
            if not r:
                return st
            st = list(st)
            for i in range(5):
                v = atom_value(i, r)
                if v is not None:
                    if st[i] is not None and st[i] != v:
                        return None
                    st[i] = v
            return tuple(st)

        def on_event(st, s):
            ev = s.ev
            st = list(st)
            if ev['k'] == 'store':
                f = holds.outer_field(ev['lhs'])
                if f == holds.HARD:
                    st[0] = None
                if f == holds.SOFT:
                    st[3] = None
            if ev['k'] in ('bitset', 'bitclear') and core.is_req_flags(ev.get('set')):
                st[1] = st[2] = st[4] = None
            if ev['k'] == 'call' and ev.get('callee') not in ('bitset_h_andnot', 'log_message') and P.callees(s, True):
                st = [None] * 5
            return tuple(st)
        before, _, sin, bout = g.forward((None,) * 5, on_event, on_edge)
        for s in g.calls('iauth_accept'):
            sts = before.get(s.key, set())
            missing = set()
            for st in sts:
                for i in (0, 1, 2):
                    if st[i] is not True:
                        missing.add(ATOMS[i])
                if not (st[3] is True or st[4] is True):
                    missing.add('%s or %s' % (ATOMS[3], ATOMS[4]))
            for i, nm in enumerate([ATOMS[0], ATOMS[1], ATOMS[2], '%s or %s' % (ATOMS[3], ATOMS[4])]):
                R.ob('C02.GRD.1', bool(sts) and nm not in missing, s, 'accept is reached only with: %s' % nm, key='gate:%s' % nm)
    # the timed-out disjunct: sole writer is a timer callback
    cbs = P.callback_roots()
    for f in P.fns.values():
        for s in f.sites():
            if s.ev['k'] == 'bitset' and s.ev.get('bit') == 'IAUTH_TIMED_OUT':
                R.ob('C02.GRD.1', f.key in cbs and 'event_new' in cbs[f.key], s,
                     'the timed-out indicator is written only by the timer callback', key='TIMED_OUT-writer')
    R.floor('C02.GRD.1', 4)


def required_mask(P, R):
    writers = {}
    for f in P.fns.values():
        for s in f.sites():
            for lv in P.written_lvalues(s):
                if any(is_var(x, 'iauth_flags') for x in walk(lv)):
                    writers.setdefault(f.key, []).append(s)
    R.ob('C02.MPT.1', len(writers) == 1, P.fns[sorted(writers)[0]] if writers else core.sender(P),
         'the required-flags mask has exactly one writer function (found: %s)' % sorted(writers), key='mask-writer')
    for k in writers:
        f = P.fns[k]
        ors = [s for s in f.calls('bitset_or') if any(is_var(x, 'iauth_flags') for x in walk(s.ev['args'][0]))
               and any(is_field(x, 'need_flags') for x in walk(s.ev['args'][2]))]
        inloop = [s for s in ors if s.bid in f.reach([e.dst for e in f.out[s.bid]])]
        R.ob('C02.MPT.1', bool(inloop), ors[0] if ors else f, 'every registered module\'s need_flags is ORed into the mask inside the module loop', key='mask-or-loop')
        # loop iterates the module registry from set_first .. set_next
        it = [s for s in f.calls('set_first') if is_var(s.ev['args'][0], 'iauth_modules')]
        R.ob('C02.MPT.1', bool(it), it[0] if it else f, 'the loop walks the whole module registry', key='mask-loop-registry', nontrivial=False)

        def sets(bit):
            return lambda t: t.ev['k'] == 'bitset' and t.ev.get('bit') == bit and any(is_var(x, 'iauth_flags') for x in walk(t.ev.get('set')))
        p = f.path_avoiding(None, sets('IAUTH_GOT_HOSTNAME'), from_entry=True)
        R.ob('C02.MPT.1', p is None, f, 'the host name result is always required', key='mask-hostname')
        for bit, pol in (('IAUTH_GOT_USER_INFO', 'IAUTH_SEND_USER_AND_PASS'), ('IAUTH_GOT_NICK', 'IAUTH_SEND_NICKNAME_ETC'), ('IAUTH_GOT_IDENT', 'IAUTH_SEND_NICKNAME_ETC')):
            ss = [t for t in f.sites() if sets(bit)(t)]
            ok = bool(ss) and all(any(r[0].get('k') == 'bittest' and r[0].get('bit') == pol and r[1] == '!=' for r in f.guards(t.bid)) for t in ss)
            # and on the policy-true edge the bit is always set
            R.ob('C02.MPT.1', ok, ss[0] if ss else f, '%s is required exactly under policy %s' % (bit, pol), key='mask-%s' % bit)
            for bid in f.reachable_blocks():
                for e in f.out[bid]:
                    r = rules.edge_rel(e)
                    if r and r[0].get('k') == 'bittest' and r[0].get('bit') == pol and r[1] == '!=':
                        first = f.block_sites(e.dst)
                        if not any(sets(bit)(t) for t in first):
                            pp = f.path_avoiding(first[-1], sets(bit)) if first else [e.dst]
                            R.ob('C02.MPT.1', pp is None, f, 'policy %s always adds %s' % (pol, bit), key='mask-always-%s' % bit)
        # callers: start-up and unregistration, on all paths
        for cname in ('iauth_startup', 'iauth_unregister_module'):
            c = P.need_fn(cname)
            p = c.path_avoiding(None, lambda t: t.ev['k'] == 'call' and f in P.callees(t, False), from_entry=True)
            R.ob('C02.MPT.1', p is None, c, '%s recomputes the required mask on every path' % cname, key='mask-caller:%s' % cname)
    R.floor('C02.MPT.1', 8)


def flag_writers(P, R):
    rd, disp = core.reader_dispatch(P)
    allowed = {}
    for s, h, vs in disp:
        for v in vs or []:
            allowed.setdefault(h.key, set()).update(LETTER_BITS.get(chr(v), set()))
    for name, bits in SETTER_BITS.items():
        f = P.fn(name)
        if f is not None:
            allowed.setdefault(f.key, set()).update(bits)
    cbs = P.callback_roots()
    n = 0
    for f in P.fns.values():
        for s in f.sites():
            ev = s.ev
            if ev['k'] == 'bitset' and core.is_req_flags(ev.get('set')) and ev.get('bit') in DATA_BITS:
                n += 1
                bit = ev['bit']
                ok = bit in allowed.get(f.key, set())
                if bit == 'IAUTH_TIMED_OUT':
                    ok = f.key in cbs
                what = '%s may be set by %s' % (bit, f.name)
                if ok and bit == 'IAUTH_GOT_IDENT' and 'U' in [chr(v) for (s2, h, vs) in disp if h.key == f.key for v in (vs or [])]:
                    ok = any(core.bittest_rel(r, 'IAUTH_EMPTY_IDENT') is True for r in f.guards(s.bid))
                    what = 'the user-info handler sets GOT_IDENT only under EMPTY_IDENT'
                R.ob('C02.WMC.2', ok, s, what if ok else '%s is set by %s, which does not handle the message that delivers it' % (bit, f.name),
                     key='flag:%s' % bit)
            if ev['k'] == 'call' and ev.get('callee') in ('bitset_or', 'bitset_set', 'memset', 'memcpy') and ev['args'] \
                    and any(core.is_req_flags(x) for x in walk(ev['args'][0])):
                n += 1
                hk = [h.key for (s2, h, vs) in disp if vs and ord('H') in vs]
                R.ob('C02.WMC.2', f.key in hk, s, 'only the hurry-up handler ORs the required mask into a request\'s flags', key='flag:bulk-or')
    R.floor('C02.WMC.2', 12, 'stores of data flags')


def query_awaited(P, R):
    xq = P.need_fn('iauth_x_query')
    n = 0
    for s in P.callers(xq, may=True):
        f = s.fn

        def marks(t):
            return t.ev['k'] == 'store' and holds.outer_field(t.ev['lhs']) == holds.MASK and t.ev.get('op') == '|='
        p = f.path_avoiding(s, marks)
        n += 1
        R.ob('C02.MPT.2', p is None, s, 'a query sent is followed on every path by marking the service as awaited', key='query-awaited',
             detail=('path: lines %s' % f.path_lines(p)) if p else None)
    R.floor('C02.MPT.2', 4, 'query send sites')


def _text_fact(r, textp):
    """A relation known on an edge, as a fact about the bytes of one of the text parameters: (var, kind, ...)."""
    l, op, rr = r
    if not isinstance(l, dict):
        return None
    c = const_of(rr)
    if l.get('k') == 'idx' and is_var(l.get('base')) and l['base']['name'] in textp and isinstance(const_of(l.get('index')), int) and isinstance(c, int) and op in ('==', '!='):
        return (l['base']['name'], 'byte', const_of(l['index']), op, c)
    if l.get('k') == 'un' and l.get('op') == '*' and is_var(l.get('e')) and l['e']['name'] in textp and isinstance(c, int) and op in ('==', '!='):
        return (l['e']['name'], 'byte', 0, op, c)
    if l.get('k') == 'callref' and l.get('callee') in ('strncmp', 'strcmp') and c == 0 and op in ('==', '!=') and len(l.get('args') or ()) >= 2:
        a = l['args']
        if is_var(a[0]) and a[0]['name'] in textp and a[1].get('k') == 'str':
            n = const_of(a[2]) if l['callee'] == 'strncmp' and len(a) > 2 else None
            if l['callee'] == 'strncmp' and not isinstance(n, int):
                return None
            return (a[0]['name'], 'cmp', a[1]['v'], n, op)
    return None


def _fact_holds(fact, text):
    """Is the fact true of the C string `text` (bytes past the terminator are unknown: any fact about them may hold)?"""
    kind = fact[1]
    b = text.encode('latin-1') + b'\0'
    if kind == 'byte':
        _, _, i, op, c = fact
        if i >= len(b):
            return True
        return (b[i] == c) if op == '==' else (b[i] != c)
    _, _, lit, n, op = fact
    lb = lit.encode('latin-1') + b'\0'
    eq = True
    k = 0
    while True:
        if n is not None and k >= n:
            break
        x, y = b[k], lb[k]
        if x != y:
            eq = False
            break
        if x == 0:
            break
        k += 1
    return eq if op == '==' else not eq


REFUSALS = ('NO', 'NO ', 'NO go away')      # "NO <message>", the message may be empty (header of iauth_xquery.c)


def refusal_kills(P, R):
    """Every documented form of a refusal reaches the rejecting verdict: along every path of a reply handler that looked
    at the bytes of the reply text and returns without having called the rejecting verdict, what the path learned about
    the text rules out "NO" (bare - the message may be empty), "NO " and "NO <message>"."""
    V = core.verdict_fns(P)
    sends_k = {k for k in V if any(core.first_word(fm) == 'k' for (s2, fm, ad) in core.send_sites(P) if s2.fn.key == k)}
    from .c05 import reply_closure
    n = 0
    for f in reply_closure(P).values():
        textp = [p['name'] for p in f.param_info if p['t'].startswith('const char')]
        if not textp:
            continue

        def on_edge(st, e):
            r = rules.edge_rel(e)
            if not r:
                return st
            ft = _text_fact(r, textp)
            if ft is None:
                return st
            return st | frozenset([ft])

        def on_event(st, t):
            if t.ev['k'] == 'call' and any(g.key in sends_k for g in P.callees(t, True)):
                return st | frozenset([('', 'killed')])
            return st
        before, _, sin, bout = f.forward(frozenset(), on_event, on_edge)
        rets = [t for t in f.sites() if t.ev['k'] == 'ret']
        ends = []
        for t in rets:
            ends += [(t, st) for st in before.get(t.key, set())]
        # a function that falls off its end
        for bid in f.reachable_blocks():
            if not f.out[bid] and not any(t.ev['k'] == 'ret' for t in f.block_sites(bid)):
                ends += [(f, st) for st in bout.get(bid, set())]
        looked = False
        for where, st in ends:
            facts = [x for x in st if x[1] != 'killed']
            if not facts:
                continue
            looked = True
            if ('', 'killed') in st:
                continue
            for v in {x[0] for x in facts}:
                for cand in REFUSALS:
                    if all(_fact_holds(x, cand) for x in facts if x[0] == v):
                        n += 1
                        R.ob('C02.MPT.3', False, where, 'a refusal reaches the rejecting verdict on every path: the reply %r gets past every test on this path (%s) to a return without it' % (
                            cand, '; '.join(sorted('%s[%s] %s %r' % (x[0], x[2], x[3], chr(x[4])) if x[1] == 'byte' else 'cmp(%s,%r,%s) %s 0' % (x[0], x[2], x[3], x[4]) for x in facts))[:200]),
                            key='NO->kill:%s' % cand.strip())
                        break
        if looked:
            n += 1
            R.ob('C02.MPT.3', True, f, 'paths of %s that inspect the reply text were followed to their returns' % f.name, key='NO->kill:walked:%s' % f.name, nontrivial=False)
    R.floor('C02.MPT.3', 1)


FINAL_ANSWERS = ('OK', 'OK ', 'OK acct', 'AGAIN', 'AGAIN ', 'AGAIN try later', 'MORE', 'MORE ', 'MORE your code')


def answers_settle(P, R, rule='C03.MPT.4'):
    """Every documented final answer ends the wait for it: along every path of a reply handler (one that gives awaited
    bits back at all) that looked at the bytes of the reply text and returns with the bit still set and the client still
    alive, what the path learned about the text rules out every form of OK, AGAIN and MORE - with a text after the
    keyword, with only the blank, and bare (the text may be empty, as for NO: the header of iauth_xquery.c).  A form
    that falls through to the "unexpected reply" return leaves the soft hold in place: with no timeout configured the
    client never gets a verdict."""
    V = core.verdict_fns(P)
    from .c05 import reply_closure
    n = 0
    for f in reply_closure(P).values():
        textp = [p['name'] for p in f.param_info if p['t'].startswith('const char')]
        rel_sites = {t.key for t in f.stores() if t.ev['k'] == 'store' and is_field(t.ev['lhs'], holds.MASK) and t.ev.get('op') == '&='}
        if not textp or not rel_sites:
            continue

        def on_edge(st, e):
            r = rules.edge_rel(e)
            if not r:
                return st
            ft = _text_fact(r, textp)
            if ft is None:
                return st
            return st | frozenset([ft])

        def on_event(st, t):
            if t.key in rel_sites or (t.ev['k'] == 'call' and any(g.key in V for g in P.callees(t, True))):
                return st | frozenset([('', 'settled')])
            return st
        before, _, sin, bout = f.forward(frozenset(), on_event, on_edge)
        ends = []
        for t in f.sites():
            if t.ev['k'] == 'ret':
                ends += [(t, st) for st in before.get(t.key, set())]
        for bid in f.reachable_blocks():
            if not f.out[bid] and not any(t.ev['k'] == 'ret' for t in f.block_sites(bid)):
                ends += [(f, st) for st in bout.get(bid, set())]
        looked = False
        for where, st in ends:
            facts = [x for x in st if x[1] != 'settled']
            if not facts:
                continue
            looked = True
            if ('', 'settled') in st:
                continue
            for v in {x[0] for x in facts}:
                for cand in FINAL_ANSWERS:
                    if all(_fact_holds(x, cand) for x in facts if x[0] == v):
                        n += 1
                        R.ob(rule, False, where, 'a final answer ends the wait on every path: the reply %r gets past every test on this path (%s) to a return with the awaited bit still set' % (
                            cand, '; '.join(sorted('%s[%s] %s %r' % (x[0], x[2], x[3], chr(x[4])) if x[1] == 'byte' else 'cmp(%s,%r,%s) %s 0' % (x[0], x[2], x[3], x[4]) for x in facts))[:200]),
                            key='answer-settles:%s' % cand.split(' ')[0] + ('' if ' ' in cand else ':bare'))
                        break
        if looked:
            n += 1
            R.ob(rule, True, f, 'paths of %s that inspect the reply text were followed to their returns (%d forms of the final answers)' % (f.name, len(FINAL_ANSWERS)), key='answer-settles:walked:%s' % f.name, nontrivial=False)
    R.floor(rule, 1)


DECOYS = ('OKAY', 'OKfoo bar', 'NOTICE x', 'NOPE', 'AGAINST all odds', 'AGAINx', 'MOREOVER x', 'MOREx')


def decoys_unrecognised(P, R, rule='C04.TAB.3'):
    """"Every other reply produces no output and no difference in any later behaviour": a text that merely BEGINS like a
    keyword (`OKAY`, `NOTICE ...`, `AGAINST ...`, `MOREOVER ...`) is not that keyword.  Along every path of a reply
    handler that inspected the bytes of the reply text and reaches a point where the reply is acted on - the awaited bit
    given back, or a verdict - what the path learned about the text rules out every decoy: the keyword was compared
    whole AND the byte after it was found to be the terminator or the blank."""
    V = core.verdict_fns(P)
    from .c05 import reply_closure
    n = 0
    for f in reply_closure(P).values():
        textp = [p['name'] for p in f.param_info if p['t'].startswith('const char')]
        rel_sites = {t.key for t in f.stores() if t.ev['k'] == 'store' and is_field(t.ev['lhs'], holds.MASK) and t.ev.get('op') == '&='}
        if not textp or not rel_sites:
            continue

        def on_edge(st, e):
            r = rules.edge_rel(e)
            if not r:
                return st
            if is_var(r[0]) and r[0]['name'] in textp and const_of(r[2]) == 0 and r[1] == '==':
                return st | frozenset([(r[0]['name'], 'absent')])
            ft = _text_fact(r, textp)
            if ft is None:
                return st
            return st | frozenset([ft])
        before, _, sin, bout = f.forward(frozenset(), lambda st, t: st, on_edge)
        acts = [t for t in f.sites() if t.key in rel_sites or (t.ev['k'] == 'call' and any(g.key in V for g in P.callees(t, True)))]
        for t in acts:
            worst = None
            for st in before.get(t.key, set()):
                facts = [x for x in st if x[1] in ('byte', 'cmp')]
                if not facts or any(x[1] == 'absent' for x in st):
                    continue
                for v in {x[0] for x in facts}:
                    for cand in DECOYS:
                        if all(_fact_holds(x, cand) for x in facts if x[0] == v):
                            worst = (cand, facts)
                            break
                    if worst:
                        break
                if worst:
                    break
            n += 1
            R.ob(rule, worst is None, t, 'a reply is acted on here only if it IS a documented answer, not a text that begins like one%s' % (
                (': %r gets here past (%s)' % (worst[0], '; '.join(sorted('%s[%s] %s %r' % (x[0], x[2], x[3], chr(x[4])) if x[1] == 'byte' else 'cmp(%s,%r,%s) %s 0' % (x[0], x[2], x[3], x[4]) for x in worst[1]))[:200])) if worst else ''),
                key='decoy:%s:%s' % (f.name, 'release' if t.key in rel_sites else 'verdict'))
    R.floor(rule, 2, 'points where a reply is acted on')


def release_recognised(P, R, cl, rule='C02.GRD.6'):
    """The awaiting bit of a service is given back only for a reply the handler understood: on every path to the
    release some test of the reply (its absence, a keyword, a leading character) was taken in the affirmative.  A path
    on which every test of the reply failed is the "unexpected text" path; releasing there books garbage as the
    service's final answer and lets the gate open."""
    from ..model import is_field as _isf
    n = 0
    for f in cl.values():
        rel_sites = [t for t in f.stores() if t.ev['k'] == 'store' and _isf(t.ev['lhs'], holds.MASK) and t.ev.get('op') == '&=']
        if not rel_sites or len(f.params) < 3:
            continue
        replyp = f.params[2]
        derived = {replyp}
        changed = True
        while changed:
            changed = False
            for s in f.sites():
                ev = s.ev
                v = ev.get('var') if ev['k'] == 'decl' else (ev['lhs']['name'] if ev['k'] == 'store' and is_var(ev.get('lhs')) and ev.get('op') == '=' else None)
                val = ev.get('init') if ev['k'] == 'decl' else ev.get('rhs')
                if v and v not in derived and isinstance(val, dict) and any(x.get('k') == 'var' and x.get('name') in derived for x in walk(val)):
                    derived.add(v)
                    changed = True

        def about(e):
            return isinstance(e, dict) and any(x.get('k') == 'var' and x.get('name') in derived for x in walk(e))
        tests = 0
        for b in f.blocks:
            c = f.term_cond(b)
            if c is not None and about(c):
                tests += 1
        if tests < 2:
            R.note('%s: %s does not test its reply text itself (%d tests); rule not applied' % (rule, f.name, tests))
            continue

        def on_edge(st, e):
            if st or e.cond is None:
                return st
            if e.label == 'case':
                return about(e.cond)
            if e.label == 'default':
                return st
            r = e.rel()
            if r and about(r[0]) and r[1] == '==':
                return True
            return st
        before, _, sin, bout = f.forward(False, lambda st, s: st, on_edge)
        for t in rel_sites:
            sts = before.get(t.key, set())
            n += 1
            R.ob(rule, False not in sts, t, 'the awaiting bit is released only on paths on which the reply was recognised (its absence or one of the keywords)',
                 key='release-recognised')
    R.floor(rule, 1)


def startup_before_input(P, R, rule='C02.WIRE.2'):
    """The set of data a client must bring is computed from what the modules asked for, once they are all loaded: by
    the start-up callback.  Input may already be waiting when the event loop starts, so the callback is scheduled in the
    way that runs before the first poll: event_base_once() with a zero delay (libevent activates such an event at once)
    or event_active().  A timer added with event_add()/evtimer_add() is served only after the first poll has delivered
    the waiting input to the reader - which then judges clients against an empty requirement and accepts them bare."""
    calc = P.need_fn('calc_iauth_flags')
    cbs = {c.fn.key: c.fn for c in P.callers(calc, may=True)}
    n = 0
    for f in P.fns.values():
        for s in f.calls():
            fa = [a for a in s.ev['args'] if isinstance(a, dict) and a.get('k') == 'func' and P.direct_target(f, a['name']) is not None and P.direct_target(f, a['name']).key in cbs]
            if not fa:
                continue
            n += 1
            callee = s.ev.get('callee')
            ok = callee in ('event_base_once', 'event_active')
            if callee == 'event_base_once':
                # the delay is a zeroed timeval
                tv = s.ev['args'][-1]
                tvn = tv['e']['name'] if isinstance(tv, dict) and tv.get('k') == 'un' and tv.get('op') == '&' and is_var(tv.get('e')) else None
                zero = tvn is not None
                if zero:
                    sets = [t for t in f.stores() if t.ev['k'] == 'store' and root_var(t.ev['lhs']) is not None and root_var(t.ev['lhs'])['name'] == tvn]
                    inits = [t for t in f.sites() if t.ev['k'] == 'decl' and t.ev.get('var') == tvn and isinstance(t.ev.get('init'), dict) and t.ev['init'].get('k') == 'init']
                    init_zero = bool(inits) and all(const_of(x) == 0 for t in inits for x in t.ev['init'].get('items', []))      # `struct timeval tv = { 0, 0 };`
                    zero = (bool(sets) or init_zero) and all(const_of(t.ev.get('rhs')) == 0 for t in sets)
                ok = zero
            R.ob(rule, ok, s, 'the start-up callback %s (it computes what a client must bring) is scheduled to run before the first poll (%s)' % (fa[0]['name'], callee), key='startup-scheduled')
    # ... and nothing else schedules or adds the reader before the loop in a way that could run first: the reader is an
    # ordinary read event
    R.floor(rule, 1, 'scheduling of the start-up callback')


def module_record_from_announcement(P, R, rule='C02.WIRE.3'):
    """Every handler of a module finds its per-client record with a lookup and does nothing when there is none; the
    record therefore exists from the announcement on - it is created by what the module installs in the new_client
    slot.  Created on first use by ONE handler, it is missing for the others: a PASS that arrives before any other line
    is dropped, no LOGIN is sent, no +! hold taken, and the client is accepted without the account it asked for."""
    slots = P.slots()
    nc = set(slots.get('iauth_module::new_client', ()))
    n = 0
    for f in P.fns.values():
        if f.unit.startswith('tests/') or f.unit == core.sender(P).unit:
            continue
        for s in f.calls('set_insert'):
            a = s.ev['args'][0] if s.ev['args'] else None
            if not (isinstance(a, dict) and any(x.get('k') == 'mem' and x.get('field') == 'data' and x.get('rec') == core.REQ_REC for x in walk(a))):
                continue
            n += 1
            # f is in the slot, or every caller chain of f starts in the slot
            ok = f.key in nc
            if not ok:
                seen, work, ok = set(), [f], True
                while work and ok:
                    g = work.pop()
                    if g.key in seen:
                        continue
                    seen.add(g.key)
                    if g.key in nc:
                        continue
                    cs = P.callers(g, may=True)
                    if not cs:
                        ok = False
                    work += [c.fn for c in cs]
            R.ob(rule, ok, s, 'the per-client record of %s is created when the client is announced (by what the module installs in the new_client slot)' % f.unit, key='record-created:%s' % f.unit)
    R.floor(rule, 1, 'insertions of per-client module records')


def run(P, R, tier):
    module_record_from_announcement(P, R)
    startup_before_input(P, R)
    gate_guard(P, R)
    required_mask(P, R)
    flag_writers(P, R)
    holds.soft_hold_typestate(P, R, 'C02.GRD.2')
    holds.refs_discipline(P, R, 'C02.GRD.4')
    query_awaited(P, R)
    holds.hard_hold_sites(P, R, 'C02.GRD.3')
    refusal_kills(P, R)
    # ... and only a refusal: `NOTICE ...` or `NOPE` is not one
    decoys_unrecognised(P, R, 'C02.TAB.3')
    # the gate's required-data test and the +! mode bookkeeping are written with the set primitives
    rules.bitset_primitives(P, R, 'C02.TAB.2')
    # a reply may only settle a query that is still unanswered: matching it against anything but the awaited
    # set lets a duplicate answer release a hold that a pending query still needs
    from ..report import Remap
    from . import c04
    R4 = Remap(R, {'C04.GRD.2': 'C02.GRD.5', 'C04.GRD.3': 'C02.GRD.5'})
    cl = c04.lookup_discipline(P, R4)
    c04.effects_guarded(P, R4, cl)
    c04.lookup_skips(P, R4, cl)
    release_recognised(P, R, cl)
    # the timeout that voids the soft holds is the configured one (a raised or disabled timeout takes effect for new clients)
    from . import c03
    c03.timer(P, Remap(R, {'C03.MPT.1': 'C02.MPT.5'}, keys=('timer-interval-fresh', 'timer-created')))
    # a reply completes a client only if it was addressed to this instance: a stale OK on a reused id accepts the newcomer
    r_, sepch, idv, serv = c04.tag_tables(P, Remap(R, {}))
    c04.validated_return(P, Remap(R, {'C04.GRD.1': 'C02.GRD.5'}), r_, sepch, idv, serv)
    # the +! hold is taken from the net mode set: a set must win over an earlier clear of the same letter
    from . import c05, c06
    c05.mode_update(P, R, 'C02.MPT.4')
    # acceptance with queries outstanding needs THE client's timer to have run out: the timer is created once, for the
    # announced client, with the configured interval, and nothing else arms or re-arms it
    from . import c10
    cl10 = c10.cleanup_fn(P, Remap(R, {'C10.MPT.1': 'C02.TMR.1', 'C10.WIRE.1': 'C02.TMR.1'}))
    c10.timer_lifecycle(P, Remap(R, {'C10.WMC.2': 'C02.TMR.1'}), cl10)
    # an answer counts for the instance it was asked about: instances of one id are told apart by a counter that never
    # repeats (anything derived from the client's own data repeats when the client does)
    c04.serial_writers(P, Remap(R, {'C04.WMC.2': 'C02.WMC.5'}), c04.reader_is_canonical(P))
    # the stamp that released the +! hold is still there at acceptance: no later reply replaces it by an empty one
    c05.account_nonempty(P, R, c05.account_writers(P, Remap(R, {})), 'C02.GRD.8')
    # a second PASS (after AGAIN) is parsed as credentials again, so a +! added by the retry is honoured
    xq, b = c06.builder(P)
    c06.query_callers(P, Remap(R, {'C06.GRD.4': 'C02.GRD.7'}), xq, b)
    # a slot above the width of a narrowed mask is never awaited; a narrow reference count frees a service that is owed a verdict
    rules.narrowing_fields(P, R, 'C02.WID.1', ('modules/iauth_core.c', 'modules/iauth_xquery.c', 'modules/iauth_class.c'))
    rules.counter_widths(P, R, 'C02.WID.2', recs=('iauth_xquery_service', 'iauth_request'))
    return EXPLANATION, ASSUMPTIONS
