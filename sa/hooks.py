"""Cache-hook coverage (shared by C17, C11, C18): inside a section hook H, every configuration
node whose value (or list) is read must, on all paths where it is non-null, be given a `hook`
that reaches H - otherwise an in-place edit of that node never reaches the cache."""
from .facts import AnalysisBroken
from .model import sx, walk, is_var, is_field, const_of, vars_in, root_var, on_path
from . import rules

NODE_TYPES = ('struct conf_node_string *', 'struct conf_node_base *', 'struct conf_node_object *',
              'struct conf_node_string_list *', 'struct conf_node_inaddr *')
VALUE_FIELDS = {'value', 'hostname', 'service', 'parsed'}


def hook_fns(P):
    """Functions ever installed as a configuration hook."""
    return {k: P.fns[k] for k in P.slots().get('conf_node_base::hook', ())}


def reaches(P, f, target, seen=None):
    """f is target or calls it on every path (definite graph)."""
    if f is target:
        return True
    al = rules.Always(P, lambda s: s.ev['k'] == 'call' and target in P.callees(s, False), may=False)
    return al.always(f)


def section_hooks(P, unit):
    """(root-holder store site, hook Fn) for `X->base.hook = fn` stores in a unit's constructor/init."""
    out = []
    for f in P.unit_fns(unit):
        for s in f.stores():
            if s.ev['k'] == 'store' and is_field(s.ev['lhs'], 'hook', 'conf_node_base') and (s.ev.get('rhs') or {}).get('k') == 'func':
                t = P.direct_target(f, s.ev['rhs']['name'])
                if t is not None:
                    out.append((s, t))
    return out


def node_vars(f):
    """Local/param variables of configuration node type used in f."""
    vs = {}
    for p in f.param_info:
        if p['t'] in NODE_TYPES:
            vs[p['name']] = p['t']
    for s in f.sites():
        for ex in rules.event_exprs(s.ev):
            for x in walk(ex):
                if x.get('k') == 'var' and x.get('t') in NODE_TYPES and x.get('sc') in ('local', 'param'):
                    vs[x['name']] = x['t']
        if s.ev['k'] == 'decl' and s.ev.get('t') in NODE_TYPES:
            vs[s.ev['var']] = s.ev['t']
    return vs


def check_hook_coverage(P, R, rule, H, root_expr_pred=None):
    """For section hook H and the functions of its unit it calls directly: every node variable whose
    value is read gets, on every path from its definition to the read, a hook reaching H (either an
    unconditional store, or `if (!n->hook) n->hook = ...`).  Children enumerated by walking the
    section's contents and nodes obtained with conf_get_child are both covered."""
    fns = [H] + [t for s in H.calls() for t in P.callees(s, False) if t.unit == H.unit and t is not H]
    seen = set()
    n = 0
    hooks = hook_fns(P)
    for f in fns:
        if f.key in seen:
            continue
        seen.add(f.key)
        nv = node_vars(f)
        # aliases of the same node: `base = set_node_data(jj)` and `str = set_node_data(jj)` from one iterator
        groups = {}
        for v in nv:
            srcs = []
            for d in f.local_defs(v):
                val = d.ev.get('rhs') or d.ev.get('init') or {}
                srcs.append(sx(val))
            groups.setdefault(tuple(sorted(srcs)), set()).add(v)
        alias = {}
        for g in groups.values():
            for v in g:
                alias[v] = g
        # `str = (struct conf_node_string *)base;` - a differently typed name for the same node
        changed = True
        while changed:
            changed = False
            for v in list(nv):
                for d in f.local_defs(v):
                    val = d.ev.get('rhs') or d.ev.get('init') or {}
                    while isinstance(val, dict) and val.get('k') == 'cast':
                        val = val.get('e')
                    if is_var(val) and (val['name'] in nv or val['name'] in f.params) and val['name'] != v:
                        g = alias.get(v, {v}) | alias.get(val['name'], {val['name']})
                        if any(alias.get(x) != g for x in g):
                            for x in g:
                                alias[x] = g
                            changed = True
        for v, t in nv.items():
            if v in f.params and f is H:
                continue   # the section root itself: its hook is H by construction (WIRE rule)
            reads = []
            for s in f.sites():
                for ex in rules.event_exprs(s.ev):
                    for x in walk(ex):
                        if x.get('k') == 'mem' and x['field'] in VALUE_FIELDS and is_var(x['base'], v):
                            if s.ev['k'] == 'store' and x is s.ev.get('lhs'):
                                continue
                            reads.append(s)
            # membership reads: in the hook itself, an object whose children are looked up (directly, or by a function
            # of the unit it is handed to) is read for "which members does it have": it needs a hook of its own, or an
            # entry added to / removed from it later is never seen
            if f is H and 'object' in (t or ''):
                for s in f.sites():
                    cs = []
                    for ex in rules.event_exprs(s.ev):
                        cs += [x for x in walk(ex) if x.get('k') == 'callref']
                    if s.ev['k'] == 'call':
                        cs.append(s.ev)
                    for c in cs:
                        if not c.get('args') or not is_var(c['args'][0], v):
                            continue
                        if c.get('callee') == 'conf_get_child':
                            reads.append(s)
                        else:
                            g = P.direct_target(f, c['callee']) if c.get('callee') else None
                            if g is not None and g.unit == H.unit and g.params and any(u.ev.get('callee') == 'conf_get_child' and u.ev['args'] and is_var(u.ev['args'][0], g.params[0]) for u in g.calls()) or \
                                    (g is not None and g.unit == H.unit and g.params and any(x.get('k') == 'callref' and x.get('callee') == 'conf_get_child' and x.get('args') and is_var(x['args'][0], g.params[0])
                                                                                             for u in g.sites() for ex in rules.event_exprs(u.ev) for x in walk(ex))):
                                reads.append(s)
            if not reads:
                continue
            names = alias.get(v, {v})

            def strip(e):
                while isinstance(e, dict) and e.get('k') == 'cast':
                    e = e.get('e')
                return e

            def hook_owner(lhs):
                """the pointer expression whose node's hook member `lhs` denotes (X in X->hook / X->base.hook)"""
                e = lhs
                while isinstance(e, dict) and e.get('k') == 'mem' and not e.get('arrow'):
                    e = e.get('base')
                if isinstance(e, dict) and e.get('k') == 'mem' and e.get('arrow'):
                    return strip(e.get('base'))
                return None

            def installs(s, names=names):
                """None, or the owner: a name of the group ('') or the text of another pointer expression"""
                ev = s.ev
                if ev['k'] != 'store' or not is_field(ev['lhs'], 'hook', 'conf_node_base'):
                    return None
                rhs = ev.get('rhs') or {}
                if rhs.get('k') != 'func':
                    return None
                t2 = P.direct_target(f, rhs['name'])
                if t2 is None or not reaches(P, t2, H):
                    return None
                rv = root_var(ev['lhs'])
                if rv is not None and rv['name'] in names:
                    return ''
                ow = hook_owner(ev['lhs'])
                return sx(ow) if ow is not None and not is_var(ow) else None

            # state: (hooked?, pointer expressions whose node has the hook, the expression the names are bound to)
            def mentions(text, var):
                import re as _re
                return _re.search(r'(?<![A-Za-z0-9_@#])%s(?![A-Za-z0-9_@#])' % _re.escape(var), text) is not None

            def on_event(st, s, names=names):
                flag, hs, bound = st
                ow = installs(s)
                if ow == '':
                    return ('hooked', hs, bound)
                if ow:
                    return ('hooked' if ow == bound else flag, hs | frozenset([ow]), bound)
                ev = s.ev
                # a store to a variable ends what was known about expressions that mention it
                if ev['k'] == 'store' and is_var(ev.get('lhs')) and ev['lhs']['name'] not in names:
                    w = ev['lhs']['name']
                    hs2 = frozenset(x for x in hs if not mentions(x, w))
                    b2 = None if (bound and mentions(bound, w)) else bound
                    if hs2 != hs or b2 != bound:
                        return (flag, hs2, b2)
                    return st
                val = None
                if ev['k'] == 'store' and is_var(ev.get('lhs')) and ev['lhs']['name'] in names and ev.get('op') == '=':
                    val = ev.get('rhs')
                elif ev['k'] == 'decl' and ev.get('var') in names and ev.get('init') is not None:
                    val = ev.get('init')
                else:
                    return st
                v2 = strip(val)
                b2 = sx(v2) if isinstance(v2, dict) and not is_var(v2) else None
                if b2 is not None and b2 in hs:
                    return ('hooked', hs, b2)
                return ('fresh', hs, b2)

            def on_edge(st, e, names=names):
                flag, hs, bound = st
                r = rules.edge_rel(e)
                if r and is_field(r[0], 'hook', 'conf_node_base') and const_of(r[2]) == 0 and r[1] == '!=':
                    if root_var(r[0]) is not None and root_var(r[0])['name'] in names and flag == 'fresh':
                        return ('hooked', hs, bound)      # already has a hook (installed on an earlier pass)
                    ow = hook_owner(r[0])
                    if ow is not None and not is_var(ow):
                        return ('hooked' if sx(ow) == bound else flag, hs | frozenset([sx(ow)]), bound)
                return st
            before0, _, _, _ = f.forward(('fresh', frozenset(), None), on_event, on_edge)
            before = {k: {x[0] for x in v_} for k, v_ in before0.items()}
            for s in reads:
                sts = before.get(s.key, set())
                n += 1
                R.ob(rule, bool(sts) and sts <= {'hooked'}, s,
                     '%s reads %s->value: the node carries a hook that reaches %s on every path to the read (states: %s)' % (f.name, v, H.name, sorted(sts)),
                     key='read:%s:%s' % (f.name, v))
        # nodes read through helper functions that return the value: the helper must install the hook
    return n
