"""Whole-program model over the extractor's facts: expressions, CFG queries, a generic
finite forward dataflow (the 'product construction' of DESIGN.md 3.3), call graphs with
function-pointer slots, and write summaries.  Nothing here executes the program."""
import collections
import glob
import json
import os

from .facts import AnalysisBroken

# --------------------------------------------------------------------------------------
# expressions
# --------------------------------------------------------------------------------------
CHILD_KEYS = ('base', 'index', 'l', 'r', 'e', 'c', 't', 'f', 'set', 'bitexpr')
LIST_KEYS = ('args', 'items')
CMP_NEG = {'==': '!=', '!=': '==', '<': '>=', '>=': '<', '>': '<=', '<=': '>'}
CMP_SWAP = {'==': '==', '!=': '!=', '<': '>', '>': '<', '<=': '>=', '>=': '<='}


def sx(e):
    """Readable rendering of an expression tree (diagnostics and structural keys)."""
    if e is None:
        return 'null'
    k = e.get('k')
    if k == 'var':
        return e['name']
    if k == 'mem':
        return sx(e['base']) + ('->' if e['arrow'] else '.') + e['field']
    if k == 'idx':
        return sx(e['base']) + '[' + sx(e['index']) + ']'
    if k == 'int':
        return str(e['v'])
    if k == 'chr':
        v = e['v']
        return repr(chr(v)) if 32 <= v < 127 else ("'\\x%02x'" % v)
    if k == 'enum':
        return e['name']
    if k == 'str':
        return json.dumps(e['v'])
    if k == 'func':
        return e['name']
    if k == 'bin':
        return '(' + sx(e['l']) + ' ' + e['op'] + ' ' + sx(e['r']) + ')'
    if k == 'un':
        if e['op'] in ('++', '--') and e.get('postfix'):
            return sx(e['e']) + e['op']
        return e['op'] + sx(e['e'])
    if k == 'bittest':
        return 'BIT(%s,%s)' % (sx(e['set']), e.get('bit') or sx(e.get('bitexpr')))
    if k == 'callref':
        return '%s(%s)' % (e.get('callee', '<ind>'), ','.join(sx(a) for a in e['args']))
    if k == 'cond':
        return '(%s ? %s : %s)' % (sx(e['c']), sx(e['t']), sx(e['f']))
    if k == 'init':
        return '{' + ','.join(sx(a) for a in e['items']) + '}'
    return '<' + str(e.get('cls') or k) + '>'


def walk(e):
    """Every sub-expression of e, pre-order."""
    if not isinstance(e, dict):
        return
    yield e
    for key in CHILD_KEYS:
        c = e.get(key)
        if isinstance(c, dict):
            yield from walk(c)
    for key in LIST_KEYS:
        for a in e.get(key) or []:
            yield from walk(a)
    fm = e.get('fields')
    if isinstance(fm, dict) and e.get('k') == 'init':
        pass  # items already cover the same children


def vars_in(e):
    return {x['name'] for x in walk(e) if x.get('k') == 'var'}


def is_int(e, v=None):
    return isinstance(e, dict) and e.get('k') in ('int', 'chr', 'enum') and (v is None or e.get('v') == v)


def const_of(e):
    if isinstance(e, dict) and e.get('k') in ('int', 'chr', 'enum'):
        return e.get('v')
    return None


def is_var(e, name=None):
    return isinstance(e, dict) and e.get('k') == 'var' and (name is None or e['name'] == name)


def is_field(e, field, rec=None):
    return (isinstance(e, dict) and e.get('k') == 'mem' and e['field'] == field
            and (rec is None or e.get('rec') == rec))


def root_var(e):
    """The variable an lvalue/address expression is rooted in, or None."""
    while isinstance(e, dict):
        k = e.get('k')
        if k == 'var':
            return e
        if k in ('mem', 'idx'):
            e = e['base']
        elif k == 'un' and e['op'] in ('*', '&', '++', '--'):
            e = e['e']
        elif k == 'bin' and e['op'] in ('+', '-'):
            e = e['l']
        else:
            return None
    return None


def path_fields(e):
    """Fields on the access path of an lvalue (base chain only, not subscripts)."""
    out = []
    while isinstance(e, dict):
        k = e.get('k')
        if k == 'mem':
            out.append((e.get('rec'), e['field']))
            e = e['base']
        elif k == 'idx':
            e = e['base']
        elif k == 'un' and e['op'] in ('*', '&', '++', '--'):
            e = e['e']
        elif k == 'bin' and e['op'] in ('+', '-'):
            e = e['l']
        else:
            break
    return out


def on_path(e, field, rec=None):
    return any(f == field and (rec is None or r == rec) for r, f in path_fields(e))


def fields_in(e):
    """(rec, field) pairs mentioned anywhere in e."""
    return {(x.get('rec'), x['field']) for x in walk(e) if x.get('k') == 'mem'}


def mentions_field(e, field, rec=None):
    return any(is_field(x, field, rec) for x in walk(e))


def same(a, b):
    return sx(a) == sx(b)


def rel(cond, pol=True):
    """Normalise a branch condition taken with polarity `pol` to (lhs, op, rhs):
    `x` -> (x != 0), `!x` -> (x == 0), comparisons oriented with the constant on the right."""
    e = cond
    while isinstance(e, dict) and e.get('k') == 'un' and e['op'] == '!':
        e = e['e']
        pol = not pol
    if isinstance(e, dict) and e.get('k') == 'bin' and e['op'] in CMP_NEG:
        l, op, r = e['l'], e['op'], e['r']
        if const_of(l) is not None and const_of(r) is None:
            l, r, op = r, l, CMP_SWAP[op]
        # (!x) == 0 etc. are not used by this code base; keep generic
        if not pol:
            op = CMP_NEG[op]
        return (l, op, r)
    return (e, '!=' if pol else '==', {'k': 'int', 'v': 0})


def rel_str(r):
    return '%s %s %s' % (sx(r[0]), r[1], sx(r[2]))


# --------------------------------------------------------------------------------------
# functions and CFGs
# --------------------------------------------------------------------------------------
class Site(object):
    __slots__ = ('fn', 'bid', 'idx', 'ev')

    def __init__(self, fn, bid, idx, ev):
        self.fn, self.bid, self.idx, self.ev = fn, bid, idx, ev

    @property
    def loc(self):
        return self.fn.prog.relloc(self.ev.get('loc', '?'))

    @property
    def line(self):
        try:
            return int(self.ev.get('loc', '?:0:0').rsplit(':', 2)[1])
        except (ValueError, IndexError):
            return 0

    @property
    def key(self):
        return (self.bid, self.idx)

    def __repr__(self):
        return '<%s %s@%s>' % (self.ev.get('k'), self.fn.name, self.loc)


class Edge(object):
    __slots__ = ('src', 'dst', 'label', 'cond', 'vs', 'notin')

    def __init__(self, src, dst, label, cond=None, vs=None, notin=None):
        self.src, self.dst, self.label, self.cond, self.vs, self.notin = src, dst, label, cond, vs, notin

    def rel(self):
        """The relation known to hold when this edge is taken, or None."""
        if self.cond is None:
            return None
        if self.label == 'true':
            return rel(self.cond, True)
        if self.label == 'false':
            return rel(self.cond, False)
        return None

    def describe(self):
        if self.label in ('true', 'false') and self.cond is not None:
            return rel_str(self.rel())
        if self.label == 'case':
            return '%s in %s' % (sx(self.cond), self.vs)
        if self.label == 'default':
            return '%s not in %s' % (sx(self.cond), self.notin)
        return self.label


class Fn(object):
    def __init__(self, prog, d, unit):
        import copy
        self.raw = copy.deepcopy(d)       # pristine facts (the constructor normalises d in place)
        self.prog, self.d, self.unit = prog, d, unit
        self.name = d['name']
        self.key = self.name          # may be rewritten to name@unit on collision
        self.static = d.get('static', False)
        self.params = [p['name'] for p in d['params']]
        self.param_info = d['params']
        self.blocks = {b['id']: b for b in d.get('blocks', [])}
        # `x += 1`, `x -= 1` and `x = x + 1` are the same step as ++ / --
        for b in self.blocks.values():
            for ev in b['events']:
                if ev.get('k') == 'store' and ev.get('op') in ('+=', '-=') and const_of(ev.get('rhs')) == 1:
                    ev['orig_op'] = ev['op']
                    ev['op'] = '++' if ev['op'] == '+=' else '--'
                elif ev.get('k') == 'store' and ev.get('op') == '=' and isinstance(ev.get('rhs'), dict) and ev['rhs'].get('k') == 'bin' \
                        and ev['rhs']['op'] in ('+', '-') and const_of(ev['rhs']['r']) == 1 and sx(ev['rhs']['l']) == sx(ev.get('lhs')):
                    ev['orig_op'] = '='
                    ev['op'] = '++' if ev['rhs']['op'] == '+' else '--'
        # the variadic forms bitset_set(X.bits, A, B, -1) / bitset_clear(...) are one set / clear per enumerator
        for b in self.blocks.values():
            evs = []
            for ev in b['events']:
                if ev.get('k') == 'call' and ev.get('callee') in ('bitset_set', 'bitset_clear') and ev.get('args') and isinstance(ev['args'][0], dict) \
                        and ev['args'][0].get('k') == 'mem' and ev['args'][0].get('field') == 'bits' and const_of(ev['args'][-1]) == -1:
                    first = True
                    for a in ev['args'][1:-1]:
                        ne = {'k': 'bitset' if ev['callee'] == 'bitset_set' else 'bitclear', 'set': ev['args'][0]['base'], 'op': '|=' if ev['callee'] == 'bitset_set' else '&=',
                              'loc': ev.get('loc'), 'macro': 'BITSET_MULTI_SET' if ev['callee'] == 'bitset_set' else 'BITSET_MULTI_CLEAR'}
                        if isinstance(a, dict) and a.get('k') == 'enum':
                            ne['bit'] = a['name']
                        else:
                            ne['bitexpr'] = a
                        if first and 'id' in ev:
                            ne['id'] = ev['id']
                        first = False
                        if 'inl_depth' in ev:
                            ne['inl_depth'] = ev['inl_depth']
                        evs.append(ne)
                    continue
                evs.append(ev)
            b['events'] = evs
        self.entry, self.exit = d.get('entry'), d.get('exit')
        self.out = collections.defaultdict(list)
        self.inn = collections.defaultdict(list)
        for b in self.blocks.values():
            if b.get('noreturn'):
                continue
            term = b.get('term') or {}
            cond = term.get('cond')
            case_vals = []
            for s in b['succs']:
                if s.get('label') == 'case':
                    case_vals.extend(s.get('vs') or [])
            for s in b['succs']:
                if s['to'] is None:
                    continue
                lab = s['label']
                # `do { } while (0)` and friends: an edge contradicting a constant condition does not exist
                if lab in ('true', 'false') and isinstance(cond, dict) and cond.get('k') == 'int':
                    if (lab == 'true') != (cond['v'] != 0):
                        continue
                e = Edge(b['id'], s['to'], lab, cond if lab != 'fall' else None,
                         vs=s.get('vs'), notin=sorted(set(case_vals)) if lab == 'default' else None)
                self.out[b['id']].append(e)
                self.inn[s['to']].append(e)
        self._expand_logical()
        self._sites = None
        self._defs = None

    def _expand_logical(self):
        """Clang evaluates the condition of a do-while (and of value contexts) as a whole: the block
        ends in `a && b` with one true and one false edge.  Split such a block into a chain of virtual
        blocks testing one operand each, so that every edge carries an atomic relation.  The operands
        were evaluated before (their calls are events of earlier blocks), so re-testing them is exact."""
        nxt = (max(self.blocks) + 1) if self.blocks else 1
        work = list(self.blocks)
        while work:
            bid = work.pop()
            blk = self.blocks[bid]
            cond = (blk.get('term') or {}).get('cond')
            es = self.out.get(bid, [])
            neg = False
            while isinstance(cond, dict) and cond.get('k') == 'un' and cond.get('op') == '!' and isinstance(cond.get('e'), dict) \
                    and cond['e'].get('k') in ('bin', 'un') and (cond['e'].get('op') in ('&&', '||', '!')):
                cond = cond['e']
                neg = not neg
            if not (isinstance(cond, dict) and cond.get('k') == 'bin' and cond.get('op') in ('&&', '||')):
                continue
            te = [e for e in es if e.label == ('false' if neg else 'true')]
            fe = [e for e in es if e.label == ('true' if neg else 'false')]
            if len(te) > 1 or len(fe) > 1 or len(te) + len(fe) != len(es) or not es:
                continue
            a, b = cond['l'], cond['r']
            vid = nxt
            nxt += 1
            term = dict(blk.get('term') or {})
            term['cond'] = b
            self.blocks[vid] = {'id': vid, 'events': [], 'term': term, 'succs': [], 'virtual': True}
            blk['term'] = dict(blk.get('term') or {}, cond=a)
            T = te[0].dst if te else None
            F = fe[0].dst if fe else None
            for e in es:
                self.inn[e.dst] = [x for x in self.inn[e.dst] if x is not e]
            new_out = []
            if cond['op'] == '&&':
                first = [('true', vid), ('false', F)]
            else:
                first = [('true', T), ('false', vid)]
            for lab, dst in first:
                if dst is not None:
                    new_out.append(Edge(bid, dst, lab, a))
            self.out[bid] = new_out
            vout = []
            for lab, dst in (('true', T), ('false', F)):
                if dst is not None:
                    vout.append(Edge(vid, dst, lab, b))
            self.out[vid] = vout
            for e in new_out + vout:
                self.inn[e.dst].append(e)
            work.append(bid)
            work.append(vid)

    # ---- sites -----------------------------------------------------------------
    def sites(self):
        if self._sites is None:
            self._sites = [Site(self, b['id'], i, ev)
                           for b in self.blocks.values() for i, ev in enumerate(b['events'])]
        return self._sites

    def calls(self, name=None):
        for s in self.sites():
            if s.ev['k'] == 'call' and (name is None or s.ev.get('callee') == name
                                         or (isinstance(name, (set, frozenset, tuple, list)) and s.ev.get('callee') in name)):
                yield s

    def stores(self):
        for s in self.sites():
            if s.ev['k'] in ('store', 'bitset', 'bitclear'):
                yield s

    def block_sites(self, bid):
        return [s for s in self.sites() if s.bid == bid]

    def term_cond(self, bid):
        return (self.blocks[bid].get('term') or {}).get('cond')

    @property
    def loc(self):
        return self.prog.relloc(self.d.get('loc', '?'))

    # ---- local definitions -----------------------------------------------------
    def local_defs(self, var):
        """All sites that define local/param `var` (decl with init, or store to it)."""
        if self._defs is None:
            self._defs = collections.defaultdict(list)
            for s in self.sites():
                ev = s.ev
                if ev['k'] == 'decl' and ev.get('init') is not None:
                    self._defs[ev['var']].append(s)
                elif ev['k'] == 'store' and is_var(ev.get('lhs')):
                    self._defs[ev['lhs']['name']].append(s)
        return self._defs.get(var, [])

    def single_def(self, var):
        """(site, value-expr) when `var` has exactly one definition in this function."""
        ds = self.local_defs(var)
        if len(ds) != 1 or var in self.params:
            return None
        ev = ds[0].ev
        if ev['k'] == 'decl':
            return ds[0], ev['init']
        if ev.get('op') == '=':
            return ds[0], ev['rhs']
        return None

    def no_store_between(self, d, s, names):
        """No store to any variable in `names` can execute after site d and before site s."""
        if d.bid == s.bid and d.idx < s.idx:
            mid = [t for t in self.block_sites(d.bid)[d.idx + 1:s.idx]]
            blocks = set()
        else:
            after_d = self.reach([e.dst for e in self.out[d.bid]])
            blocks = {b for b in after_d if s.bid in self.reach([b])} - {d.bid, s.bid}
            mid = self.block_sites(d.bid)[d.idx + 1:] + self.block_sites(s.bid)[:s.idx]
            for b in blocks:
                mid += self.block_sites(b)
        for t in mid:
            ev = t.ev
            if ev['k'] == 'store' and is_var(ev.get('lhs')) and ev['lhs']['name'] in names:
                return False
            if ev['k'] == 'call':
                for a in ev['args']:
                    if isinstance(a, dict) and a.get('k') == 'un' and a['op'] == '&' and is_var(a['e']) and a['e']['name'] in names:
                        return False
        return True

    def expand_local(self, e, site, depth=0):
        """Replace a single-definition local by its defining expression when the definition dominates
        `site` and none of the variables it reads is stored to in between."""
        if not isinstance(e, dict) or depth > 3:
            return e
        if e.get('k') == 'var' and e.get('sc') == 'local':
            d = self.single_def(e['name'])
            if d and (d[0].bid == site.bid and d[0].idx < site.idx or (d[0].bid != site.bid and self.dominates(d[0].bid, site.bid))) \
                    and self.no_store_between(d[0], site, vars_in(d[1])):
                return self.expand_local(d[1], site, depth + 1)
            return e
        out = dict(e)
        for k in CHILD_KEYS:
            if isinstance(e.get(k), dict):
                out[k] = self.expand_local(e[k], site, depth)
        return out

    # ---- reachability ----------------------------------------------------------
    def reach(self, start, cut_edges=(), cut_blocks=()):
        seen, work = set(), [b for b in start if b not in cut_blocks]
        cut = {(e.src, e.dst, e.label) for e in cut_edges}
        while work:
            b = work.pop()
            if b in seen:
                continue
            seen.add(b)
            for e in self.out[b]:
                if (e.src, e.dst, e.label) in cut or e.dst in cut_blocks:
                    continue
                work.append(e.dst)
        return seen

    def reachable_blocks(self):
        return self.reach([self.entry])

    def dominating_edges(self, bid):
        """Edges crossed by every entry->bid path (edge dominance by deletion)."""
        res = []
        live = self.reachable_blocks()
        if bid not in live:
            return res
        for b in live:
            for e in self.out[b]:
                if bid not in self.reach([self.entry], cut_edges=[e]) or (b == self.entry and False):
                    res.append(e)
        return res

    def guards(self, bid):
        """Relations established on every path to block bid (single dominating edges)."""
        out = []
        for e in self.dominating_edges(bid):
            r = e.rel()
            if r is not None:
                out.append(r)
        return out

    def before(self, a, b):
        """True if site a is executed before site b on every path reaching b through a's
        block... conservative: same block and earlier, or a's block dominates b's block."""
        if a.bid == b.bid:
            return a.idx < b.idx
        return b.bid not in self.reach([self.entry], cut_blocks=[a.bid])

    def dominates(self, a_bid, b_bid):
        return a_bid == b_bid or b_bid not in self.reach([self.entry], cut_blocks=[a_bid])

    def case_body(self, bid):
        """First block with events reached from bid through empty fall-through blocks (stacked case labels)."""
        seen = set()
        while bid not in seen and not self.block_sites(bid) and len(self.out[bid]) == 1 and self.out[bid][0].label == 'fall':
            seen.add(bid)
            bid = self.out[bid][0].dst
        return bid

    def path_from_block(self, bid, is_b, target=None):
        """Like path_avoiding, starting at the first event of block bid."""
        target = self.exit if target is None else target
        seen, work = set(), [(bid, [bid])]
        while work:
            b, path = work.pop()
            if b in seen:
                continue
            seen.add(b)
            blocked = any(is_b(s) for s in self.block_sites(b))
            if b == target and not blocked and len(path) > 1:
                return path
            if blocked:
                continue
            for e in self.out[b]:
                if e.dst == target and len(path) >= 1 and not any(is_b(s) for s in self.block_sites(e.dst)):
                    return path + [e.dst]
                work.append((e.dst, path + [e.dst]))
        return None

    def path_avoiding(self, start, is_b, target=None, from_entry=False):
        """A path (list of block ids) from just after site `start` (or from the entry)
        to `target` (default: the exit block) on which no event satisfies is_b; None if
        every path contains such an event (must-pass-through holds)."""
        target = self.exit if target is None else target
        if from_entry:
            first = [(self.entry, [self.entry])]
        else:
            for s in self.block_sites(start.bid)[start.idx + 1:]:
                if is_b(s):
                    return None
            if start.bid == target:
                return [start.bid]
            first = [(e.dst, [start.bid, e.dst]) for e in self.out[start.bid]]
        seen, work = set(), first
        while work:
            b, path = work.pop()
            if b in seen:
                continue
            seen.add(b)
            blocked = any(is_b(s) for s in self.block_sites(b))
            if b == target and not blocked:
                return path
            if blocked:
                continue
            for e in self.out[b]:
                work.append((e.dst, path + [e.dst]))
        return None

    def path_lines(self, path):
        """Source lines touched by a block path (for reports)."""
        lines = []
        for b in path:
            for s in self.block_sites(b):
                if s.line and (not lines or lines[-1] != s.line):
                    lines.append(s.line)
        return lines

    def flag_locals(self):
        """Locals that only ever hold integer constants (`int release = 1; ... release = 0; ... if (release)`): status
        flags of single-exit code.  Their value is tracked along each path like a folded helper's return value."""
        c = self.__dict__.get('_flag_locals')
        if c is not None:
            return c
        vals = {}
        bad = set()
        for s in self.sites():
            ev = s.ev
            if ev['k'] == 'decl' and ev.get('var'):
                v = ev['var']
                if ev.get('init') is None:
                    continue
                k = const_of(ev['init'])
                if isinstance(k, int) and 'int' in (ev.get('t') or '') and '*' not in (ev.get('t') or ''):
                    vals.setdefault(v, set()).add(k)
                else:
                    bad.add(v)
            elif ev['k'] == 'store' and is_var(ev.get('lhs')) and ev['lhs'].get('sc') == 'local':
                v = ev['lhs']['name']
                k = const_of(ev.get('rhs')) if ev.get('op') == '=' else None
                if isinstance(k, int) and 'int' in (ev['lhs'].get('t') or '') and '*' not in (ev['lhs'].get('t') or ''):
                    vals.setdefault(v, set()).add(k)
                else:
                    bad.add(v)
            # address taken: someone else may write it
            for ex in (ev.get('args') or []) + [ev.get('rhs'), ev.get('init')]:
                for x in walk(ex or {}):
                    if isinstance(x, dict) and x.get('k') == 'un' and x.get('op') == '&' and is_var(x.get('e')):
                        bad.add(x['e']['name'])
        c = {v for v, ks in vals.items() if v not in bad and len(ks) >= 2 and not v.startswith('__ret@')}
        self.__dict__['_flag_locals'] = c
        return c

    def _forward_with_retconsts(self, init, on_event, on_edge, limit, stop):
        """Folded helpers return through synthetic `__ret@...` variables.  Track what was last stored
        into them (a constant, or the returned expression) next to the caller's abstract state, so that
        `if (helper(...))` keeps the path sensitivity the original inline code had: an edge that
        contradicts the constant just returned is infeasible, and an edge on a returned expression is
        presented to the analysis as edges on that expression's conjuncts."""
        exprs = {}

        flags_ = self.flag_locals()

        def is_ret(e):
            return isinstance(e, dict) and e.get('k') == 'var' and (e.get('name', '').startswith('__ret@') or e.get('name') in flags_)

        def derive(e, truth, out):
            if isinstance(e, dict) and e.get('k') == 'un' and e.get('op') == '!':
                derive(e['e'], not truth, out)
            elif isinstance(e, dict) and e.get('k') == 'bin' and e.get('op') == '&&':
                if truth:
                    derive(e['l'], True, out)
                    derive(e['r'], True, out)
            elif isinstance(e, dict) and e.get('k') == 'bin' and e.get('op') == '||':
                if not truth:
                    derive(e['l'], False, out)
                    derive(e['r'], False, out)
            elif isinstance(e, dict):
                out.append(Edge(-1, -1, 'true' if truth else 'false', e))

        def ev2(st, s):
            user, rc = st
            ev = s.ev
            if ev['k'] == 'store' and is_ret(ev.get('lhs')):
                d = dict(rc)
                c = const_of(ev.get('rhs')) if ev.get('op') == '=' else None
                if c is not None:
                    d[ev['lhs']['name']] = ('c', c)
                elif ev.get('op') == '=' and isinstance(ev.get('rhs'), dict):
                    exprs[s.key] = ev['rhs']
                    d[ev['lhs']['name']] = ('e', s.key)
                else:
                    d.pop(ev['lhs']['name'], None)
                rc = tuple(sorted(d.items()))
            elif ev['k'] == 'decl' and ev.get('var') in flags_ and isinstance(const_of(ev.get('init')), int):
                d = dict(rc)
                d[ev['var']] = ('c', const_of(ev['init']))
                rc = tuple(sorted(d.items()))
            elif ev['k'] in ('store', 'decl') and rc:
                # `req = helper(...)`: the caller's variable carries what the helper returned; any other store ends that
                tgt = ev['lhs']['name'] if ev['k'] == 'store' and is_var(ev.get('lhs')) else ev.get('var') if ev['k'] == 'decl' else None
                val = ev.get('rhs') if ev['k'] == 'store' else ev.get('init')
                if tgt is not None:
                    d = dict(rc)
                    if is_ret(val) and ev.get('op', '=') == '=' and val['name'] in d:
                        d[tgt] = d[val['name']]
                        rc = tuple(sorted(d.items()))
                    elif tgt in d:
                        d.pop(tgt)
                        rc = tuple(sorted(d.items()))
            r = on_event(user, s) if on_event else user
            if r is None:
                return None
            if isinstance(r, list):
                return [(x, rc) for x in r]
            return (r, rc)

        def ed2(st, e):
            user, rc = st
            r = e.rel()
            extra = []
            if r is not None and (is_ret(r[0]) or (is_var(r[0]) and r[0]['name'] in dict(rc))) and const_of(r[2]) is not None:
                d = dict(rc)
                got = d.get(r[0]['name'])
                c, op = const_of(r[2]), r[1]
                if got and got[0] == 'c':
                    v = got[1]
                    holds = {'==': v == c, '!=': v != c, '<': v < c, '<=': v <= c, '>': v > c, '>=': v >= c}[op]
                    if not holds:
                        return None
                elif got and got[0] == 'e' and c == 0 and op in ('==', '!='):
                    derive(exprs[got[1]], op == '!=', extra)
            if r is not None and is_var(r[0]) and r[0]['name'] in dict(rc) and const_of(r[2]) is None and isinstance(r[2], dict):
                # `ii = find(...)` where find returned `table.used` ("not found"), then `if (ii >= table.used) return;`:
                # the variable IS that expression, so a relation that contradicts equality is infeasible
                got = dict(rc).get(r[0]['name'])
                if got and got[0] == 'e' and sx(exprs[got[1]]) == sx(r[2]) and not any(k.get('k') == 'callref' for k in walk(r[2])):
                    if r[1] in ('!=', '<', '>'):
                        return None
            u = on_edge(user, e) if on_edge else user
            if u is None:
                return None
            for x in extra:
                u = on_edge(u, x) if on_edge else u
                if u is None:
                    return None
            return (u, rc)
        self._in_wrapped = True
        try:
            before, at_exit, sin, bout = self.forward((init, ()), ev2, ed2, limit, stop)
        finally:
            self._in_wrapped = False
        strip = lambda m: collections.defaultdict(set, {k: {u for (u, rc) in v} for k, v in m.items()})
        return strip(before), {u for (u, rc) in at_exit}, strip(sin), strip(bout)

    # ---- generic finite forward dataflow ------------------------------------------
    def forward(self, init, on_event=None, on_edge=None, limit=20000, stop=None):
        """Propagate sets of hashable abstract states from the entry.

        on_event(state, site) -> state | None | list of states
        on_edge(state, edge)  -> state | None (None = edge infeasible for this state)
        Returns (before, at_exit): before[(bid, idx)] = set of states just before that
        event; at_exit = set of states reaching the exit block.  Finite domains only.
        """
        if (getattr(self, 'inlined', 0) or self.flag_locals()) and not getattr(self, '_in_wrapped', False):
            return self._forward_with_retconsts(init, on_event, on_edge, limit, stop)
        states_in = collections.defaultdict(set)
        states_in[self.entry].add(init)
        before = collections.defaultdict(set)
        block_out = collections.defaultdict(set)
        work = collections.deque([(self.entry, init)])
        steps = 0
        while work:
            bid, st = work.popleft()
            steps += 1
            if steps > limit * 50:
                raise AnalysisBroken('dataflow did not converge in %s' % self.name)
            cur = [st]
            sites = self.block_sites(bid)
            if stop is not None and bid == stop[0]:
                sites = sites[:stop[1]]
            for s in sites:
                nxt = []
                for c in cur:
                    before[s.key].add(c)
                    r = on_event(c, s) if on_event else c
                    if r is None:
                        continue
                    if isinstance(r, list):
                        nxt.extend(r)
                    else:
                        nxt.append(r)
                cur = nxt
            for c in cur:
                block_out[bid].add(c)
                if stop is not None and bid == stop[0]:
                    continue
                for e in self.out[bid]:
                    r = on_edge(c, e) if on_edge else c
                    if r is None:
                        continue
                    if r not in states_in[e.dst]:
                        states_in[e.dst].add(r)
                        work.append((e.dst, r))
        return before, states_in[self.exit], states_in, block_out


# --------------------------------------------------------------------------------------
# program
# --------------------------------------------------------------------------------------
# externals that write through a pointer argument: name -> written argument indices
EXT_WRITES = {
    'memset': (0,), 'memcpy': (0,), 'memmove': (0,), 'strcpy': (0,), 'strncpy': (0,),
    'strlcpy': (0,), 'strcat': (0,), 'strncat': (0,), 'sprintf': (0,), 'snprintf': (0,),
    'vsnprintf': (0,), 'vsprintf': (0,), 'strtol': (1,), 'strtoul': (1,), 'strtod': (1,),
    'time': (0,), 'localtime_r': (1,), 'strftime': (0,), 'clock_gettime': (1,),
    'event_base_gettimeofday_cached': (1,), 'fstat': (1,), 'fread': (0,), 'setjmp': (0,),
    '_setjmp': (0,), 'evbuffer_readln': (1,), '__builtin_va_start': (0,), '__builtin_va_copy': (0,),
}
NORETURN = {'exit', '_exit', 'abort', 'longjmp', '__assert_fail', 'execv'}


class Program(object):
    def __init__(self, facts_dir, repo):
        self.repo = os.path.abspath(repo)
        self.fns = {}
        self.by_name = collections.defaultdict(list)
        self.units = {}
        self.globals = collections.defaultdict(list)   # name -> [(unit, g)]
        self.records, self.enums = {}, {}
        files = sorted(p for p in glob.glob(os.path.join(facts_dir, '*.json'))
                       if not p.endswith('compile_commands.json'))
        for p in files:
            d = json.load(open(p))
            if d.get('errors'):
                raise AnalysisBroken('front-end errors in ' + d['unit'])
            unit = self.relpath(d['unit'])
            self.units[unit] = d
            for f in d['functions']:
                fn = Fn(self, f, unit)
                self.by_name[fn.name].append(fn)
            for g in d['globals']:
                self.globals[g['name']].append((unit, g))
            for k, v in d['records'].items():
                self.records.setdefault(k, v)
            for k, v in d['enums'].items():
                self.enums.setdefault(k, v)
        for name, lst in self.by_name.items():
            for fn in lst:
                if len(lst) > 1:
                    fn.key = '%s@%s' % (name, fn.unit)
                self.fns[fn.key] = fn
        self._slots = None
        self._wparams = None
        from . import inline
        self.folded_helpers = inline.fold_new_helpers(self)
        self.n_blocks = sum(len(f.blocks) for f in self.fns.values())

    # ---- names and locations -------------------------------------------------------
    def relpath(self, p):
        p = os.path.abspath(p) if os.path.isabs(p) else p
        if p.startswith(self.repo + '/'):
            return p[len(self.repo) + 1:]
        return p

    def relloc(self, loc):
        parts = loc.rsplit(':', 2)
        if len(parts) == 3:
            return '%s:%s' % (self.relpath(parts[0]), parts[1])
        return loc

    def fn(self, name, unit=None):
        """Function by name (and unit, for names defined in several units)."""
        lst = self.by_name.get(name, [])
        if unit is not None:
            lst = [f for f in lst if f.unit == unit]
        if len(lst) == 1:
            return lst[0]
        return None

    def need_fn(self, name, unit=None):
        f = self.fn(name, unit)
        if f is None:
            raise AnalysisBroken('anchor function %s%s not found (renamed or removed?)'
                                 % (name, ' in ' + unit if unit else ''))
        return f

    def unit_fns(self, unit):
        return [f for f in self.fns.values() if f.unit == unit]

    def enum_value(self, enum, name):
        for c in self.enums.get(enum, []):
            if c['name'] == name:
                return c['v']
        return None

    def record_field(self, rec, field):
        for f in (self.records.get(rec) or {}).get('fields', []):
            if f['name'] == field:
                return f
        return None

    def global_def(self, name, unit=None):
        for u, g in self.globals.get(name, []):
            if (unit is None or u == unit) and not g.get('extern_decl'):
                return u, g
        return None

    # ---- call resolution ---------------------------------------------------------------
    def direct_target(self, fn, callee):
        lst = self.by_name.get(callee, [])
        same = [f for f in lst if f.unit == fn.unit]
        if same:
            return same[0]
        ext = [f for f in lst if not f.static]
        # module entry points are defined once per module: a direct call by name cannot
        # cross units, so only a unique non-static definition is a target
        if len(ext) == 1:
            return ext[0]
        return None

    def slot_of(self, fn, e):
        """Name of the function-pointer slot denoted by expression e inside fn."""
        while isinstance(e, dict):
            k = e.get('k')
            if k == 'un' and e['op'] in ('*', '&'):
                e = e['e']
            elif k == 'idx':
                e = e['base']
            elif k == 'mem':
                return '%s::%s' % (e.get('rec'), e['field'])
            elif k == 'var':
                sc = e.get('sc')
                if sc == 'param':
                    return 'param:%s:%s' % (fn.key, e['name'])
                if sc in ('local', 'static_local'):
                    return 'local:%s:%s' % (fn.key, e['name'])
                return 'global:%s' % e['name']
            elif k == 'cond':
                return None
            else:
                return None
        return None

    def slots(self):
        """slot -> set of Fn keys that may be stored there (closed over aliases)."""
        if self._slots is not None:
            return self._slots
        members = collections.defaultdict(set)     # slot -> fn keys
        alias = collections.defaultdict(set)       # slot -> slots it includes

        def value_into(fn, slot, val):
            if slot is None or not isinstance(val, dict):
                return
            k = val.get('k')
            if k == 'func':
                t = self.direct_target(fn, val['name']) if fn else None
                if t is None:
                    lst = [f for f in self.by_name.get(val['name'], [])]
                    t = lst[0] if len(lst) == 1 else None
                if t is not None:
                    members[slot].add(t.key)
            elif k == 'un' and val['op'] == '&':
                value_into(fn, slot, val['e'])
            elif k in ('var', 'mem', 'idx'):
                s2 = self.slot_of(fn, val) if fn else None
                if s2:
                    alias[slot].add(s2)
            elif k == 'cond':
                value_into(fn, slot, val['t'])
                value_into(fn, slot, val['f'])
            elif k == 'callref' and val.get('callee') == 'dlsym' and len(val['args']) == 2 \
                    and val['args'][1].get('k') == 'str':
                alias[slot].add('dlsym:' + val['args'][1]['v'])

        def init_into(rec, fm):
            for fld, init in (fm or {}).items():
                if not isinstance(init, dict):
                    continue
                if init.get('k') == 'init':
                    if init.get('rec'):
                        init_into(init['rec'], init.get('fields'))
                    for it in init.get('items') or []:
                        if isinstance(it, dict) and it.get('k') == 'init' and it.get('rec'):
                            init_into(it['rec'], it.get('fields'))
                else:
                    value_into(None, '%s::%s' % (rec, fld), init)

        for name, lst in self.globals.items():
            for unit, g in lst:
                fake = _UnitCtx(self, unit)
                if g.get('fields'):
                    for fld, init in g['fields'].items():
                        if isinstance(init, dict) and init.get('k') == 'init' and init.get('rec'):
                            init_into(init['rec'], init.get('fields'))
                        else:
                            value_into(fake, '%s::%s' % (g.get('rec'), fld), init)
                init = g.get('init')
                if isinstance(init, dict):
                    for x in walk(init):
                        if x.get('k') == 'init' and x.get('rec'):
                            for fld, v in (x.get('fields') or {}).items():
                                if isinstance(v, dict) and v.get('k') != 'init':
                                    value_into(fake, '%s::%s' % (x['rec'], fld), v)
        for name in ('module_constructor', 'module_destructor', 'module_post_init'):
            for f in self.by_name.get(name, []):
                members['dlsym:' + name].add(f.key)
        for fn in self.fns.values():
            for s in fn.sites():
                ev = s.ev
                if ev['k'] == 'store' and ev.get('op') == '=':
                    value_into(fn, self.slot_of(fn, ev['lhs']), ev['rhs'])
                elif ev['k'] == 'decl' and ev.get('init') is not None:
                    value_into(fn, 'local:%s:%s' % (fn.key, ev['var']), ev['init'])
                elif ev['k'] == 'call' and ev.get('callee'):
                    t = self.direct_target(fn, ev['callee'])
                    for i, a in enumerate(ev['args']):
                        if t is not None and i < len(t.params):
                            value_into(fn, 'param:%s:%s' % (t.key, t.params[i]), a)
                        elif t is None and isinstance(a, dict) and a.get('k') == 'func':
                            value_into(fn, 'extcb:%s:%d' % (ev['callee'], i), a)
        changed = True
        while changed:
            changed = False
            for s, incl in list(alias.items()):
                for s2 in list(incl):
                    new = members[s2] - members[s]
                    if new:
                        members[s] |= new
                        changed = True
        self._slots = members
        return members

    def callees(self, site, may=True):
        """Defined functions a call event may invoke (direct, or slot members if may)."""
        ev = site.ev
        if ev.get('callee'):
            t = self.direct_target(site.fn, ev['callee'])
            return [t] if t is not None else []
        if not may:
            return []
        slot = self.slot_of(site.fn, ev.get('fexpr'))
        return [self.fns[k] for k in sorted(self.slots().get(slot, ()))]

    def call_slot(self, site):
        if site.ev.get('callee'):
            return None
        return self.slot_of(site.fn, site.ev.get('fexpr'))

    def callers(self, target, may=True):
        """Sites (in any function) that may call Fn `target`."""
        res = []
        for fn in self.fns.values():
            for s in fn.calls():
                if target in self.callees(s, may):
                    res.append(s)
        return res

    def closure(self, roots, may=True, stop=()):
        """Functions reachable from roots through the (may or definite) call graph."""
        seen, work = {}, list(roots)
        while work:
            f = work.pop()
            if f.key in seen or f.key in stop:
                continue
            seen[f.key] = f
            for s in f.calls():
                for t in self.callees(s, may):
                    if t.key not in seen:
                        work.append(t)
        return seen

    # ---- set instances: the cleanup/compare slots are per set object -----------------------------
    def set_instance_fns(self, site):
        """For a call of the set API, the cleanup/compare functions registered for the set instance
        named by the first argument, or None when the instance cannot be identified."""
        ev = site.ev
        if ev.get('callee') not in ('set_remove', 'set_clear', 'set_insert', 'set_find', 'set_lower') or not ev['args']:
            return None
        a0 = ev['args'][0]
        out = []
        if is_var(a0) and a0.get('sc') in ('global', 'file_static'):
            found = False
            for f in self.fns.values():
                for s in f.stores():
                    if s.ev['k'] == 'store' and is_var(s.ev.get('lhs'), a0['name']) and (s.ev.get('rhs') or {}).get('callee') == 'set_alloc':
                        found = True
                        for x in s.ev['rhs']['args']:
                            if x.get('k') == 'func':
                                t = self.direct_target(f, x['name'])
                                if t is not None:
                                    out.append(t)
            return out if found else None
        if a0.get('k') == 'un' and a0['op'] == '&':
            obj = a0['e']
            key = sx(obj) if is_var(obj) else (obj.get('rec'), obj.get('field')) if obj.get('k') == 'mem' else None
            if key is None:
                return None
            for f in self.fns.values():
                for s in f.stores():
                    lhs = s.ev.get('lhs') if s.ev['k'] == 'store' else None
                    if lhs is not None and lhs.get('k') == 'mem' and lhs['field'] in ('cleanup', 'compare') and s.ev.get('rhs', {}).get('k') == 'func':
                        b = lhs['base']
                        bkey = sx(b) if is_var(b) else (b.get('rec'), b.get('field')) if b.get('k') == 'mem' else None
                        if bkey == key:
                            t = self.direct_target(f, s.ev['rhs']['name'])
                            if t is not None:
                                out.append(t)
            return out
        return None

    def closure_sets(self, roots):
        """May-call closure that resolves set-API calls by set instance instead of descending
        into the generic set::cleanup / set::compare slots."""
        seen, work = {}, list(roots)
        while work:
            f = work.pop()
            if f.key in seen:
                continue
            seen[f.key] = f
            for s in f.calls():
                inst = self.set_instance_fns(s)
                if inst is not None:
                    for t in inst:
                        if t.key not in seen:
                            work.append(t)
                    continue
                for t in self.callees(s, True):
                    if t.key not in seen:
                        work.append(t)
        return seen

    def callback_roots(self):
        """Functions handed to external code as callbacks (libevent, atexit, ...)."""
        res = {}
        for slot, ks in self.slots().items():
            if slot.startswith('extcb:'):
                for k in ks:
                    res[k] = slot
        return res

    # ---- write summaries ---------------------------------------------------------------
    def written_params(self):
        """fn key -> set of parameter indices the function may write through."""
        if self._wparams is not None:
            return self._wparams
        wp = collections.defaultdict(set)
        # locals that point into what a parameter points to: `dot = strchr(str, '.')`, `p = str + 1`, `q = p`
        INTO = {'strchr', 'strrchr', 'strstr', 'strpbrk', 'memchr', 'strcasestr', 'index', 'rindex'}

        def derived_from(fn, e, al, depth=0):
            """names of parameters the pointer value e may point into"""
            while isinstance(e, dict) and e.get('k') == 'cast':
                e = e.get('e')
            if not isinstance(e, dict) or depth > 6:
                return set()
            if is_var(e):
                if e.get('sc') == 'param':
                    return {e['name']}
                return set(al.get(e['name'], ()))
            if e.get('k') == 'bin' and e.get('op') in ('+', '-'):
                return derived_from(fn, e.get('l'), al, depth + 1) | derived_from(fn, e.get('r'), al, depth + 1)
            if e.get('k') == 'un' and e.get('op') == '&':
                x = e.get('e')
                if isinstance(x, dict) and x.get('k') == 'idx':
                    return derived_from(fn, x.get('base'), al, depth + 1)
                return set()
            if e.get('k') == 'callref' and e.get('callee') in INTO and e.get('args'):
                return derived_from(fn, e['args'][0], al, depth + 1)
            if e.get('k') == 'cond':
                return derived_from(fn, e.get('t'), al, depth + 1) | derived_from(fn, e.get('f'), al, depth + 1)
            return set()
        aliases = {}
        for fn in self.fns.values():
            al = {}
            ch = True
            while ch:
                ch = False
                for s in fn.sites():
                    ev = s.ev
                    tgt = ev.get('var') if ev['k'] == 'decl' else (ev['lhs']['name'] if ev['k'] == 'store' and is_var(ev.get('lhs')) and ev['lhs'].get('sc') == 'local' and ev.get('op') in ('=', '+=', '-=') else None)
                    val = ev.get('init') if ev['k'] == 'decl' else ev.get('rhs') if ev['k'] == 'store' else None
                    t = ev.get('t') if ev['k'] == 'decl' else (ev.get('lhs') or {}).get('t') if ev['k'] == 'store' else None
                    if not tgt or not isinstance(val, dict) or '*' not in (t or ''):
                        continue
                    d = derived_from(fn, val, al)
                    if d - al.get(tgt, set()):
                        al[tgt] = al.get(tgt, set()) | d
                        ch = True
            aliases[fn.key] = al
        changed = True
        while changed:
            changed = False
            for fn in self.fns.values():
                for s in fn.sites():
                    ev = s.ev
                    targets = []
                    if ev['k'] == 'store':
                        targets.append(ev['lhs'])
                    elif ev['k'] in ('bitset', 'bitclear'):
                        targets.append(ev['set'])
                    elif ev['k'] == 'call':
                        for i in self.call_written_args(s, wp):
                            if i < len(ev['args']):
                                targets.append({'k': 'un', 'op': '*', 'e': ev['args'][i]})
                    for t in targets:
                        rv = root_var(t)
                        if rv is None or is_var(t):
                            continue
                        if rv.get('sc') == 'param':
                            names = {rv['name']}
                        elif rv.get('sc') == 'local':
                            names = aliases[fn.key].get(rv['name'], set())
                        else:
                            continue
                        for nm in names:
                            i = fn.params.index(nm) if nm in fn.params else None
                            if i is not None and i not in wp[fn.key]:
                                wp[fn.key].add(i)
                                changed = True
        self._wparams = wp
        return wp

    def call_written_args(self, site, wp=None):
        """Argument indices a call may write through."""
        ev = site.ev
        wp = self.written_params() if wp is None else wp
        res = set()
        ts = self.callees(site, True)
        if ev.get('callee') and not ts:
            res |= set(EXT_WRITES.get(ev['callee'], ()))
        for t in ts:
            res |= wp.get(t.key, set())
        return res

    def written_lvalues(self, site):
        """Lvalue expressions an event may write (stores, bit ops, calls through pointers)."""
        ev = site.ev
        if ev['k'] == 'store':
            return [ev['lhs']]
        if ev['k'] in ('bitset', 'bitclear'):
            return [ev['set']]
        if ev['k'] == 'call':
            out = []
            for i in self.call_written_args(site):
                if i < len(ev['args']):
                    a = ev['args'][i]
                    if isinstance(a, dict) and a.get('k') == 'un' and a['op'] == '&':
                        out.append(a['e'])
                    else:
                        out.append({'k': 'un', 'op': '*', 'e': a})
            return out
        return []


class _UnitCtx(object):
    """Minimal stand-in for a Fn when resolving names in a global initialiser."""

    def __init__(self, prog, unit):
        self.prog, self.unit, self.key, self.params = prog, unit, 'init@' + unit, []


def load(facts_dir, repo):
    return Program(facts_dir, repo)
