"""Anchors and shared facts about the IAuth core (modules/iauth_core.c and friends),
discovered structurally wherever possible so that renames of locals, helper extraction and
statement reordering do not matter."""
import re

from .facts import AnalysisBroken
from .model import sx, walk, is_var, is_field, const_of, vars_in, root_var
from . import rules

REQ_REC = 'iauth_request'
VERDICT_WORDS = {'k', 'R', 'D'}


def sender(P):
    return P.need_fn('iauth_send')


def send_sites(P):
    """Every call of the single sender: (site, literal format or None, addressed?)."""
    out = []
    for f in P.fns.values():
        for s in f.calls('iauth_send'):
            a = s.ev['args']
            fmt = a[1]['v'] if len(a) > 1 and a[1].get('k') == 'str' else None
            addressed = not (const_of(a[0]) == 0)
            out.append((s, fmt, addressed))
    return out


def emitters(P):
    """Keys of the functions that may write to the server channel: the single sender and everything that may reach it
    through the call graph (direct calls and function-pointer slots)."""
    snd = sender(P)
    em = {snd.key}
    changed = True
    while changed:
        changed = False
        for f in P.fns.values():
            if f.key in em:
                continue
            if any(t.key in em for s in f.calls() for t in P.callees(s, True)):
                em.add(f.key)
                changed = True
    return em


def addr_text_field(P):
    """Name of the request member that holds the client's address as text: the buffer the address printer fills from
    the request's own address when the client is announced (found structurally, so that renaming the member does not
    lose the anchor)."""
    cache = P.__dict__.setdefault('_addr_text_field', [])
    if cache:
        return cache[0]
    name = None
    for f in P.unit_fns(sender(P).unit):
        for s in f.calls('irc_ntop'):
            a = s.ev['args']
            if a and isinstance(a[0], dict) and a[0].get('k') == 'mem' and a[0].get('rec') == REQ_REC:
                name = a[0].get('field')
    if name is None:
        name = 'text_addr'
    cache.append(name)
    return name


def first_word(fmt):
    return re.split(r'\s', fmt)[0] if fmt is not None else None


def verdict_fns(P):
    """Functions that send a final verdict line (first word k, R or D, addressed)."""
    v = {}
    for s, fmt, addressed in send_sites(P):
        if addressed and first_word(fmt) in VERDICT_WORDS:
            v[s.fn.key] = s.fn
    if not v:
        raise AnalysisBroken('no function sends a verdict line (k/R/D) any more')
    return v


def is_req_flags(e):
    """Expression denotes the flags bitset of a request."""
    return isinstance(e, dict) and is_field(e, 'flags', REQ_REC)


def bit_event(s, kind, bit):
    ev = s.ev
    return ev['k'] == kind and ev.get('bit') == bit and is_req_flags(ev.get('set'))


def bittest_rel(r, bit, setpred=is_req_flags):
    """Relation r tests `bit` of a request's flags: returns True (bit set), False (clear), None."""
    l, op, rr = r
    if isinstance(l, dict) and l.get('k') == 'bittest' and l.get('bit') == bit and setpred(l.get('set')) and const_of(rr) == 0:
        if op == '!=':
            return True
        if op == '==':
            return False
    return None


def gate(P):
    """The acceptance gate: the unique function that calls iauth_accept."""
    acc = P.need_fn('iauth_accept')
    callers = {s.fn.key: s.fn for s in P.callers(acc, may=True)}
    return acc, callers


def retire_pred(P):
    """Predicate: site retires a request directly (set_remove on the request table)."""
    def pred(s):
        ev = s.ev
        return (ev['k'] == 'call' and ev.get('callee') == 'set_remove' and ev['args']
                and is_var(ev['args'][0], 'iauth_reqs') and len(ev['args']) > 2 and const_of(ev['args'][2]) == 0)
    return pred


def reader_dispatch(P):
    """(reader fn, list of (site, handler Fn, letters)) for the handler calls of the command dispatch - a switch on the
    command letter, or the same thing written as an if / else-if chain on the letter (or a local copy of it)."""
    rd = P.need_fn('iauth_read')
    out = []
    sw = None
    for bid in rd.reachable_blocks():
        if any(e.label == 'case' for e in rd.out[bid]):
            c = rd.term_cond(bid)
            if c is not None and (any(x.get('k') == 'idx' for x in walk(c)) or is_var(c)):
                sw = bid
    seen = set()
    if sw is not None:
        for e in rd.out[sw]:
            if e.label != 'case':
                continue
            # the case body: blocks reachable from the case target without re-entering the switch head
            for b in rd.reach([e.dst], cut_blocks=[sw]):
                for s in rd.block_sites(b):
                    if s.ev['k'] == 'call' and s.key not in seen:
                        ts = P.callees(s, False)
                        if ts and ts[0].unit == rd.unit and ts[0].name.startswith('parse_'):
                            seen.add(s.key)
                            out.append((s, ts[0], e.vs))
    if len(out) < 10:
        # if-chain form: the letter of a handler call is the constant its guards compare the command character with
        out, seen = [], set()

        def is_letter_expr(x):
            if isinstance(x, dict) and x.get('k') == 'idx' and isinstance(x.get('base'), dict) and x['base'].get('k') == 'idx':
                return True
            if is_var(x) and x.get('sc') == 'local' and 'char' in x.get('t', ''):
                d = rd.single_def(x['name'])
                return bool(d) and isinstance(d[1], dict) and d[1].get('k') == 'idx' and isinstance(d[1].get('base'), dict) and d[1]['base'].get('k') == 'idx'
            return False
        for s in rd.calls():
            ts = P.callees(s, False)
            if not (ts and ts[0].unit == rd.unit and ts[0].name.startswith('parse_')):
                continue
            vs = [const_of(g[2]) for g in rd.guards(s.bid) if g[1] == '==' and isinstance(const_of(g[2]), int) and const_of(g[2]) > 32 and is_letter_expr(g[0])]
            if vs and s.key not in seen:
                seen.add(s.key)
                out.append((s, ts[0], vs[:1]))
        if len(out) < 10:
            raise AnalysisBroken('the reader has no dispatch on the command letter (found %d handler calls)' % len(out))
    return rd, out


def event_entries(P):
    """Event entries: handlers called from the dispatch switch, libevent callbacks of the
    module units, and implementers of the reply slots."""
    rd, disp = reader_dispatch(P)
    ent = {}
    for s, h, vs in disp:
        ent[h.key] = (h, 'dispatch %s' % ''.join(chr(v) for v in (vs or [])))
    for k, slot in P.callback_roots().items():
        f = P.fns[k]
        if f.unit.startswith('modules/') and f.key != rd.key:
            ent[k] = (f, 'callback ' + slot)
    for slot in ('iauth_module::x_reply', 'iauth_module::x_unlinked'):
        for k in P.slots().get(slot, ()):
            ent[k] = (P.fns[k], 'slot ' + slot)
    return ent


def module_loader(P):
    """The function that loads ONE module: it looks up `module_constructor` in the object it opened (found by that
    look-up, so that renaming it or moving the "already loaded?" test to its callers does not lose the anchor)."""
    cache = P.__dict__.setdefault('_module_loader', [])
    if cache:
        return cache[0]
    found = None
    for f in P.fns.values():
        if f.unit.startswith('tests/') or f.unit.startswith('modules/'):
            continue
        for s in f.calls('dlsym'):
            a = s.ev['args']
            if len(a) > 1 and a[1].get('k') == 'str' and a[1].get('v') == 'module_constructor':
                found = f
    if found is None:
        found = P.need_fn('module_load')
    cache.append(found)
    return found


def slot_release_sites(P, unit='modules/iauth_xquery.c', table='iauth_xquery_services'):
    """Stores that empty a slot of the service table: `table.vec[i] = NULL`, or `*slot = NULL` in a function whose
    parameter `slot` is only ever given the address of an element of that table (`&table.vec[i]`)."""
    out = []
    for f in P.unit_fns(unit):
        for s in f.stores():
            ev = s.ev
            if ev['k'] != 'store' or const_of(ev.get('rhs')) != 0 or ev.get('op') != '=':
                continue
            lhs = ev.get('lhs') or {}
            if lhs.get('k') == 'idx' and any(x.get('k') == 'mem' and x.get('field') == 'vec' for x in walk(lhs)) and root_var(lhs) is not None and root_var(lhs)['name'] == table:
                out.append(s)
            elif lhs.get('k') == 'un' and lhs.get('op') == '*' and is_var(lhs.get('e')) and lhs['e']['name'] in f.params:
                pi = f.params.index(lhs['e']['name'])
                cs = P.callers(f, may=True)
                def elem_addr(a):
                    return isinstance(a, dict) and a.get('k') == 'un' and a.get('op') == '&' and isinstance(a.get('e'), dict) and a['e'].get('k') == 'idx' \
                        and any(x.get('k') == 'mem' and x.get('field') == 'vec' for x in walk(a['e'])) and root_var(a['e']) is not None and root_var(a['e'])['name'] == table
                if cs and all(pi < len(c.ev['args']) and elem_addr(c.ev['args'][pi]) for c in cs):
                    out.append(s)
    return out
