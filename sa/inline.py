"""Analysis-time inlining of small static helpers.

A maintainer routinely extracts a block into a static helper (or folds one back).  Rules that
analyse the body of an anchor function therefore look at a *view* of it in which static helpers
of the same unit - not address-taken, not recursive, not named in the rule's keep list - are
inlined at their call sites (depth <= 3).  Parameters the helper never assigns are substituted
by the caller's argument expressions, a single return value is substituted for the call, so a
verbatim extraction yields exactly the events of the original code.  The view is a fresh Fn
built from pristine facts; it is never registered in the program."""
import copy

from .model import Fn, walk, is_var, CHILD_KEYS, LIST_KEYS

MAX_BLOCKS = 400
MAX_DEPTH = 3


def _subst(e, fn):
    """Rebuild expression tree e applying fn to every node bottom-up (fn returns a replacement or None)."""
    if not isinstance(e, dict):
        return e
    out = dict(e)
    for k in CHILD_KEYS:
        if isinstance(e.get(k), dict):
            out[k] = _subst(e[k], fn)
    for k in LIST_KEYS:
        if isinstance(e.get(k), list):
            out[k] = [_subst(a, fn) for a in e[k]]
    if isinstance(e.get('fields'), dict) and e.get('k') == 'init':
        out['fields'] = {k: _subst(v, fn) for k, v in e['fields'].items()}
    if out.get('k') == 'bittest' and isinstance(out.get('bitexpr'), dict) and out['bitexpr'].get('k') == 'enum' and not out.get('bit'):
        out['bit'] = out['bitexpr']['name']
        out.pop('bitexpr')
    r = fn(out)
    return out if r is None else r


EV_EXPR_KEYS = ('lhs', 'rhs', 'init', 'val', 'set', 'bitexpr', 'fexpr')


def _map_event(ev, fn):
    out = dict(ev)
    for k in EV_EXPR_KEYS:
        if isinstance(ev.get(k), dict):
            out[k] = _subst(ev[k], fn)
    if isinstance(ev.get('args'), list):
        out['args'] = [_subst(a, fn) for a in ev['args']]
    # a bit operation whose bit was a parameter and is now an enumerator is the named-bit form
    if out.get('k') in ('bitset', 'bitclear') and isinstance(out.get('bitexpr'), dict) and out['bitexpr'].get('k') == 'enum' and not out.get('bit'):
        out['bit'] = out['bitexpr']['name']
        out.pop('bitexpr')
    return out


def _assigned_params(raw):
    """Parameters the function assigns to (or takes the address of)."""
    ps = {p['name'] for p in raw['params']}
    out = set()
    for b in raw['blocks']:
        for ev in b['events']:
            if ev['k'] == 'store' and is_var(ev.get('lhs')) and ev['lhs']['name'] in ps:
                out.add(ev['lhs']['name'])
            for k in EV_EXPR_KEYS + ('args',):
                v = ev.get(k)
                for t in (v if isinstance(v, list) else [v]):
                    for x in walk(t):
                        if x.get('k') == 'un' and x['op'] == '&' and is_var(x['e']) and x['e']['name'] in ps:
                            out.add(x['e']['name'])
    return out


def inlinable(P, caller, callee, keep):
    if callee is None or callee.key == caller.key or callee.name in keep:
        return False
    if not callee.static or callee.unit != caller.unit:
        return False
    if len(callee.raw.get('blocks', [])) > MAX_BLOCKS or callee.raw.get('cfg_error'):
        return False
    # address taken anywhere -> it is a slot member, keep it a call
    for slot, ks in P.slots().items():
        if callee.key in ks:
            return False
    # calls through its own parameters (function-pointer helpers) and variadic helpers stay calls
    for b in callee.raw['blocks']:
        for ev in b['events']:
            if ev['k'] == 'call' and ev.get('callee') in ('__builtin_va_start', 'setjmp', '_setjmp'):
                return False
            if ev['k'] == 'call' and not ev.get('callee'):
                fe = ev.get('fexpr') or {}
                if is_var(fe) and fe.get('sc') == 'param':
                    return False
            if ev['k'] == 'call' and ev.get('callee') == callee.name:
                return False
    return True


def _inline_one(P, f, raw, keep, depth):
    """Inline the first eligible call found in raw (edited in place).  Returns True if one was inlined."""
    next_id = max(b['id'] for b in raw['blocks']) + 1
    next_ev = 1 + max([ev.get('id', 0) for b in raw['blocks'] for ev in b['events']] + [0])
    for b in list(raw['blocks']):
        for i, ev in enumerate(b['events']):
            if ev['k'] != 'call' or not ev.get('callee') or ev.get('inl_depth', 0) >= depth:
                continue
            g = P.direct_target(f, ev['callee'])
            if not inlinable(P, f, g, keep):
                continue
            graw = copy.deepcopy(g.raw)
            assigned = _assigned_params(graw)
            sfx = '@%s#%d' % (g.name, ev.get('id', 0))
            params = [p['name'] for p in graw['params']]
            args = ev['args']
            pmap, binds = {}, []
            for k, pn in enumerate(params):
                a = args[k] if k < len(args) else None
                if a is not None and pn not in assigned:
                    pmap[pn] = a
                elif a is not None:
                    binds.append({'k': 'store', 'op': '=', 'id': next_ev, 'loc': ev.get('loc'), 'synthetic': True,
                                  'lhs': {'k': 'var', 'name': pn + sfx, 'sc': 'local', 't': graw['params'][k]['t']}, 'rhs': a})
                    next_ev += 1
            ev_off = next_ev
            idmap = {}
            for gb in graw['blocks']:
                idmap[gb['id']] = next_id
                next_id += 1
            after_id = next_id
            next_id += 1
            rvals = [gev.get('val') for gb in graw['blocks'] for gev in gb['events'] if gev['k'] == 'ret' and gev.get('val') is not None]
            nrets = len(rvals)
            # several returns of one and the same unassigned-elsewhere local count as one
            if nrets > 1 and all(isinstance(v, dict) and v.get('k') == 'var' and v.get('sc') == 'local' and v.get('name') == rvals[0].get('name') for v in rvals):
                nrets = 1
            retvar = {'k': 'var', 'name': '__ret' + sfx, 'sc': 'local', 't': graw.get('ret', 'int')}
            d_in = ev.get('inl_depth', 0) + 1

            def rn(x):
                # *&obj (an out-parameter handed the address of a caller variable) is the object itself
                if x.get('k') == 'un' and x.get('op') == '*' and isinstance(x.get('e'), dict) and x['e'].get('k') == 'un' and x['e'].get('op') == '&' and isinstance(x['e'].get('e'), dict):
                    return x['e']['e']
                if x.get('k') == 'var' and x.get('sc') in ('param', 'local'):
                    if x.get('sc') == 'param' and x['name'] in pmap:
                        rep = copy.deepcopy(pmap[x['name']])
                        if x.get('castto') and isinstance(rep, dict):
                            rep['castto'] = x['castto']      # `(unsigned char)param` keeps its cast around the argument
                        return rep
                    y = dict(x)
                    y['name'] = x['name'] + sfx
                    y['sc'] = 'local'
                    return y
                if isinstance(x.get('ev'), int):
                    y = dict(x)
                    y['ev'] = x['ev'] + ev_off
                    return y
                return None
            ret_expr = None
            new_blocks = []
            after = {'id': after_id, 'events': b['events'][i + 1:], 'succs': b['succs'], 'term': b.get('term')}
            if b.get('noreturn'):
                after['noreturn'] = True
            for gb in graw['blocks']:
                if gb['id'] == graw['exit']:
                    continue
                nb = {'id': idmap[gb['id']], 'events': [], 'succs': []}
                if gb.get('noreturn'):
                    nb['noreturn'] = True
                for gev in gb['events']:
                    mev = _map_event(gev, rn)
                    if 'id' in mev:
                        mev['id'] = mev['id'] + ev_off
                    mev['inl_depth'] = d_in
                    if mev['k'] == 'decl' and mev.get('var'):
                        mev['var'] = mev['var'] + sfx
                    if mev['k'] == 'ret':
                        if mev.get('val') is not None:
                            if nrets == 1:
                                ret_expr = mev['val']
                            else:
                                nb['events'].append({'k': 'store', 'op': '=', 'id': mev['id'], 'loc': mev.get('loc'), 'synthetic': True,
                                                     'inl_depth': d_in, 'lhs': dict(retvar), 'rhs': mev['val']})
                        continue
                    nb['events'].append(mev)
                if gb.get('term'):
                    t = dict(gb['term'])
                    if isinstance(t.get('cond'), dict):
                        t['cond'] = _subst(t['cond'], rn)
                    nb['term'] = t
                for sc in gb['succs']:
                    s2 = dict(sc)
                    if sc['to'] is not None:
                        s2['to'] = after_id if sc['to'] == graw['exit'] else idmap[sc['to']]
                    nb['succs'].append(s2)
                new_blocks.append(nb)
            b['events'] = b['events'][:i] + binds
            b['succs'] = [{'to': idmap[graw['entry']], 'label': 'fall'}]
            b['term'] = None
            b.pop('noreturn', None)
            raw['blocks'].extend(new_blocks + [after])
            callid = ev.get('id')
            # copy coalescing: `x = helper(...)` where the helper returns its own local r (one return): let the folded
            # body compute directly into x, as the code it was extracted from did - provided no argument mentions x
            retbase = ret_expr['name'][:-len(sfx)] if (ret_expr is not None and ret_expr.get('k') == 'var' and ret_expr.get('name', '').endswith(sfx)) else None
            if retbase is not None and retbase in params:
                # `x = helper(..., x, ...)` where the helper steps its own copy of x and returns it: work on x itself
                k_ = params.index(retbase)
                a_ = args[k_] if k_ < len(args) else None
                tgt = None
                for ob in [after] + raw['blocks']:
                    for oe in ob['events']:
                        if oe.get('k') == 'store' and oe.get('op') == '=' and isinstance(oe.get('rhs'), dict) and oe['rhs'].get('k') == 'callref' and oe['rhs'].get('ev') == callid \
                                and isinstance(oe.get('lhs'), dict) and oe['lhs'].get('k') == 'var' and oe['lhs'].get('sc') in ('local', 'param'):
                            tgt = (ob, oe)
                if tgt is not None and isinstance(a_, dict) and a_.get('k') == 'var' and a_.get('name') == tgt[1]['lhs']['name'] \
                        and not any(y.get('k') == 'var' and y.get('name') == a_['name'] for j_, a2 in enumerate(args) if j_ != k_ for y in walk(a2)):
                    x = tgt[1]['lhs']
                    rname = ret_expr['name']

                    def to_x2(y):
                        if y.get('k') == 'var' and y.get('name') == rname:
                            z = dict(x)
                            return z
                        return None
                    for nb in new_blocks:
                        nb['events'] = [_map_event(e2, to_x2) for e2 in nb['events']]
                        if nb.get('term') and isinstance(nb['term'].get('cond'), dict):
                            nb['term'] = dict(nb['term'], cond=_subst(nb['term']['cond'], to_x2))
                    b['events'] = [e2 for e2 in b['events'] if not (e2.get('synthetic') and e2.get('k') == 'store' and e2['lhs'].get('name') == rname)]
                    ret_expr = dict(x)
                    tgt[0]['events'] = [e2 for e2 in tgt[0]['events'] if e2 is not tgt[1]]
            elif retbase is not None:
                tgt = None
                for ob in [after] + raw['blocks']:
                    for oe in ob['events']:
                        if oe.get('k') == 'store' and oe.get('op') == '=' and isinstance(oe.get('rhs'), dict) and oe['rhs'].get('k') == 'callref' and oe['rhs'].get('ev') == callid \
                                and isinstance(oe.get('lhs'), dict) and oe['lhs'].get('k') == 'var' and oe['lhs'].get('sc') == 'local':
                            tgt = (ob, oe)
                if tgt is not None:
                    x = tgt[1]['lhs']
                    mentioned = any(y.get('k') == 'var' and y.get('name') == x['name'] for a in args for y in walk(a))
                    same_t = (x.get('t') == ret_expr.get('t'))
                    if not mentioned and same_t:
                        rname = ret_expr['name']

                        def to_x(y):
                            if y.get('k') == 'var' and y.get('name') == rname:
                                z = dict(y)
                                z['name'] = x['name']
                                return z
                            return None
                        for nb in new_blocks:
                            nb['events'] = [_map_event(e2, to_x) for e2 in nb['events']]
                            for e2 in nb['events']:
                                if e2.get('k') == 'decl' and e2.get('var') == rname:
                                    e2['k'] = 'store' if e2.get('init') is not None else 'nop'
                                    if e2['k'] == 'store':
                                        e2['lhs'] = dict(x)
                                        e2['rhs'] = e2.pop('init')
                                        e2['op'] = '='
                            nb['events'] = [e2 for e2 in nb['events'] if e2.get('k') != 'nop']
                            if nb.get('term') and isinstance(nb['term'].get('cond'), dict):
                                nb['term'] = dict(nb['term'], cond=_subst(nb['term']['cond'], to_x))
                        ret_expr = dict(x)
                        tgt[0]['events'] = [e2 for e2 in tgt[0]['events'] if e2 is not tgt[1]]
            value = ret_expr if ret_expr is not None else (dict(retvar) if nrets > 1 else None)
            if value is not None:
                def rv(x):
                    if x.get('k') == 'callref' and x.get('ev') == callid:
                        return copy.deepcopy(value)
                    return None
                for ob in raw['blocks']:
                    ob['events'] = [_map_event(oe, rv) for oe in ob['events']]
                    if ob.get('term') and isinstance(ob['term'].get('cond'), dict):
                        ob['term'] = dict(ob['term'], cond=_subst(ob['term']['cond'], rv))
            if raw['exit'] == b['id']:
                raw['exit'] = after_id
            return True
    return False


def inline_view(P, f, keep=(), depth=MAX_DEPTH):
    """A Fn view of f with eligible helpers inlined, or f itself when there is nothing to inline."""
    cache = P.__dict__.setdefault('_inline_cache', {})
    ck = (f.key, tuple(sorted(keep)), depth)
    if ck in cache:
        return cache[ck]
    raw = copy.deepcopy(f.raw)
    n = 0
    while n < 60 and _inline_one(P, f, raw, keep, depth):
        n += 1
    if n == 0:
        cache[ck] = f
        return f
    view = Fn(P, copy.deepcopy(raw), f.unit)
    view.raw = raw
    view.key = f.key
    view.inlined = n
    cache[ck] = view
    return view


def baseline_names():
    import os
    p = os.path.join(os.path.dirname(os.path.abspath(__file__)), 'baseline_functions.txt')
    if not os.path.exists(p):
        return None
    return {l.strip() for l in open(p) if l.strip() and not l.startswith('#')}


def fold_new_helpers(P):
    """Program-level normalisation: static functions that do not exist in the reference tree (freshly
    extracted helpers) are folded into their callers and disappear as functions of their own.  On the
    reference tree this is the identity."""
    base = baseline_names()
    if base is None:
        return []
    new = [f for f in P.fns.values() if f.static and f.name not in base and not f.unit.startswith('tests/')]
    if not new:
        return []
    keep = {f.name for f in P.fns.values() if f.name in base or not f.static}
    folded = []
    views = {}
    for f in list(P.fns.values()):
        if f in new:
            continue
        v = inline_view(P, f, keep=keep)
        if v is not f:
            views[f.key] = v
    # a new helper disappears when no call to it remains anywhere
    for k, v in views.items():
        P.fns[k] = v
        P.by_name[v.name] = [v if x.key == k else x for x in P.by_name[v.name]]
    for h in new:
        still = any(s.ev.get('callee') == h.name and P.direct_target(s.fn, h.name) is h for g in P.fns.values() if g is not h for s in g.calls())
        addr = any(h.key in ks for ks in P.slots().values())
        if not still and not addr:
            P.__dict__.setdefault('folded_fns', {}).setdefault(h.name, []).append(h)
            P.fns.pop(h.key, None)
            P.by_name[h.name] = [x for x in P.by_name[h.name] if x is not h]
            folded.append(h.name)
    P._slots = None
    P._wparams = None
    P.__dict__.pop('_inline_cache', None)
    return folded
