"""Index-cursor typestate for scanners of a NUL-terminated string: `s[pos]`, `s[pos + 1]`, `++pos`,
`pos += 2`, `pos += helper(s + pos, ...)`.

Invariant maintained: every byte before the cursor is non-NUL (so the cursor is inside the string or
on its terminator).  State h = number of bytes from the cursor on that are known non-NUL on this
path, i.e. s[pos + j] may be read for 0 <= j <= h.  Reading further, or advancing over a byte that
is not known to be non-NUL, is reported.  A byte becomes known non-NUL on the edge of a comparison
with a non-zero character constant, a `case` label of non-zero characters, or a ctype class test
(NUL is in no class but `cntrl`).  h is capped at 4, so the dataflow is finite.

Interprocedural step: a helper that is handed `s + pos` and returns either 0 or its own (valid)
cursor is summarised as "returns an offset inside its argument"; `pos += helper(s + pos ...)` and
`pos = (q + len) - s` with q = s + <cursor> and len such a result keep the invariant."""
from .model import walk, is_var, const_of, sx
from . import rules

CAP = 4
CTYPE_NONNUL_MASKS = {1, 4, 8, 256, 512, 1024, 2048, 4096, 8192, 16384, 32768}   # everything but _IScntrl (2)
CTYPE_FNS = ('isdigit', 'isspace', 'isalpha', 'isalnum', 'isxdigit', 'isupper', 'islower', 'ispunct', 'isgraph', 'isprint')


def find_cursors(fn):
    """(string parameter, cursor variable) pairs: s[... pos ...] with s a `char *` parameter."""
    out = {}
    params = {p['name']: p for p in fn.param_info}
    for ex in _all_exprs(fn):
        for x in walk(ex):
            if x.get('k') == 'idx' and is_var(x['base']) and x['base']['name'] in params and 'char' in params[x['base']['name']].get('t', '') \
                    and '*' in params[x['base']['name']].get('t', ''):
                vs = [v for v in _vars(x['index'])]
                for v in vs:
                    out.setdefault(x['base']['name'], set()).add(v)
    return out


def _vars(e):
    return [x['name'] for x in walk(e) if x.get('k') == 'var' and x.get('sc') in ('local', 'param')]


def _all_exprs(fn):
    for s in fn.sites():
        for ex in rules.event_exprs(s.ev):
            yield ex
    for b in fn.blocks.values():
        c = (b.get('term') or {}).get('cond')
        if isinstance(c, dict):
            yield c


def _offset(ix, pos):
    """j if ix is `pos + j` (j >= 0 constant), `pos`, `++pos` (store already done), `pos++` (-1: the byte before); else None"""
    if is_var(ix, pos):
        return 0
    if ix.get('k') == 'un' and ix.get('op') == '++' and is_var(ix.get('e'), pos):
        return -1 if ix.get('postfix') else 0
    if ix.get('k') == 'bin' and ix.get('op') == '+':
        a, b = ix['l'], ix['r']
        for x, y in ((a, b), (b, a)):
            o = _offset(x, pos)
            c = const_of(y)
            if o is not None and isinstance(c, int) and c >= 0:
                return o + c
    if ix.get('k') == 'bin' and ix.get('op') == '-':
        o = _offset(ix['l'], pos)
        c = const_of(ix['r'])
        if o is not None and isinstance(c, int) and c >= 0:
            return o - c
    return None


def _byte_subject(l, S, pos):
    """offset j when l denotes (a class test of) the byte s[pos + j]"""
    if not isinstance(l, dict):
        return None, None
    if l.get('k') == 'idx' and is_var(l['base'], S):
        return _offset(l['index'], pos), 'byte'
    # (*__ctype_b_loc())[(int) s[pos+j]] & MASK
    if l.get('k') == 'bin' and l.get('op') == '&' and isinstance(const_of(l.get('r')), int):
        inner = l['l']
        if inner.get('k') == 'idx':
            for x in walk(inner['index']):
                if x.get('k') == 'idx' and is_var(x['base'], S):
                    j = _offset(x['index'], pos)
                    base_txt = sx(inner['base'])
                    if '__ctype_b_loc' in base_txt and const_of(l['r']) in CTYPE_NONNUL_MASKS:
                        return j, 'class'
                    if 'char_types' in base_txt:
                        return j, 'class'      # the project's table: entry 0 is 0 (checked by the caller's premise)
    if l.get('k') == 'callref' and l.get('callee') in CTYPE_FNS and l.get('args'):
        a = l['args'][0]
        for x in walk(a):
            if x.get('k') == 'idx' and is_var(x['base'], S):
                return _offset(x['index'], pos), 'class'
    return None, None


class Result(object):
    def __init__(self):
        self.problems = []      # (site-or-None, message)
        self.reads = 0
        self.advances = 0
        self.returns_valid_offset = True
        self.jumps = []


def analyse(P, fn, S, pos, summaries=None, depth=0):
    """Run the typestate for string parameter S and cursor pos.  summaries: name -> bool (helper returns a valid
    offset into its first argument)."""
    summaries = summaries if summaries is not None else {}
    res = Result()
    problems = res.problems

    # pointers derived from the string: q = s + <cursor expression>
    derived = set()
    for s in fn.stores():
        ev = s.ev
        if ev['k'] == 'store' and is_var(ev.get('lhs')) and ev.get('op') == '=' and isinstance(ev.get('rhs'), dict):
            r = ev['rhs']
            if r.get('k') == 'bin' and r.get('op') == '+' and is_var(r['l'], S) and _offset(r['r'], pos) is not None:
                derived.add(ev['lhs']['name'])
    for q in list(derived):
        for s in fn.stores():
            ev = s.ev
            if ev['k'] == 'store' and is_var(ev.get('lhs'), q):
                r = ev.get('rhs') or {}
                ok = ev.get('op') == '=' and ((r.get('k') == 'bin' and r.get('op') == '+' and is_var(r['l'], S) and _offset(r['r'], pos) is not None) or const_of(r) == 0)
                if not ok:
                    derived.discard(q)
    for s in fn.sites():
        if s.ev['k'] == 'decl' and s.ev.get('var') in derived and s.ev.get('init') is not None and const_of(s.ev['init']) != 0:
            derived.discard(s.ev['var'])

    def helper_valid(callee):
        if callee in summaries:
            return summaries[callee]
        g = P.direct_target(fn, callee) if callee else None
        if g is None or depth > 2:
            summaries[callee] = False
            return False
        summaries[callee] = False      # recursion guard
        cs = find_cursors(g)
        ok = False
        if g.params and g.params[0] in cs and len(cs[g.params[0]]) >= 1:
            for pv in sorted(cs[g.params[0]]):
                r = analyse(P, g, g.params[0], pv, summaries, depth + 1)
                if not r.problems and r.returns_valid_offset and r.reads:
                    ok = True
                    res.jumps.append('%s returns 0 or its own cursor (%d reads, %d advances checked)' % (g.name, r.reads, r.advances))
                    break
        summaries[callee] = ok
        return ok

    def offset_result(e):
        """e is a value that is a valid offset into `s + pos` (result of a summarised helper handed s + pos)"""
        if isinstance(e, dict) and e.get('k') == 'callref' and e.get('args'):
            a0 = e['args'][0]
            if a0.get('k') == 'bin' and a0.get('op') == '+' and is_var(a0['l'], S) and _offset(a0['r'], pos) == 0:
                return helper_valid(e.get('callee'))
        return False

    # len = helper(q, ...): remember which local holds an offset into which derived pointer
    offs = {}
    for s in fn.stores():
        ev = s.ev
        r = ev.get('rhs') if ev['k'] == 'store' else None
        if ev['k'] == 'store' and is_var(ev.get('lhs')) and ev.get('op') == '=' and isinstance(r, dict) and r.get('k') == 'callref' and r.get('args') \
                and is_var(r['args'][0]) and r['args'][0]['name'] in derived:
            if helper_valid(r.get('callee')) and len(fn.local_defs(ev['lhs']['name'])) == 1:
                offs[ev['lhs']['name']] = r['args'][0]['name']

    def need(st, j, site, what, ix=None):
        if j is None and ix is not None and const_of(ix) == 0:
            return          # s[0]: the string is not NULL, its first byte exists
        if j is None:
            problems.append((site, '%s: the subscript is not the cursor plus a constant' % what))
            return
        if j < 0:
            return          # a byte before the cursor: valid by the invariant (pos++ inside the subscript)
        if j > st:
            problems.append((site, '%s reads %d byte(s) beyond the last byte known to be inside the string (only %d known non-NUL from the cursor on)' % (what, j - st, st)))

    def reads_in(e, st, site):
        for x in walk(e):
            if x.get('k') == 'idx' and is_var(x['base'], S):
                res.reads += 1
                need(st, _offset(x['index'], pos), site, sx(x), x['index'])

    def on_event(st, s):
        ev = s.ev
        # reads inside this event happen in the post-state of ++ events referenced inside it; conservative: check with st
        if ev['k'] == 'store' and is_var(ev.get('lhs'), pos):
            op = ev.get('op')
            if op == '++':
                res.advances += 1
                if st < 1:
                    problems.append((s, 'the cursor %s is advanced over a byte that is not known to be non-NUL' % pos))
                    return 0
                return st - 1
            if op == '--':
                return min(CAP, st + 1)
            if op == '+=':
                res.advances += 1
                c = const_of(ev.get('rhs'))
                if isinstance(c, int) and c >= 0:
                    if st < c:
                        problems.append((s, 'the cursor %s is advanced by %d but only %d byte(s) are known to be non-NUL' % (pos, c, st)))
                        return 0
                    return st - c
                if offset_result(ev.get('rhs')):
                    return 0
                # len = helper(s + pos, ...); ...; pos += len  - with the cursor untouched in between
                rv = ev.get('rhs')
                if is_var(rv):
                    ds = fn.local_defs(rv['name'])
                    if len(ds) == 1 and offset_result(ds[0].ev.get('rhs') or ds[0].ev.get('init')):
                        d = ds[0]
                        between = [t for t in fn.stores() if t.ev['k'] == 'store' and is_var(t.ev.get('lhs'), pos) and t.key != s.key
                                   and (t.bid in fn.reach([d.bid]) and s.bid in fn.reach([t.bid])) and not (t.bid == d.bid and t.idx < d.idx) and not (t.bid == s.bid and t.idx > s.idx)]
                        if not between:
                            return 0
                problems.append((s, 'the cursor %s jumps ahead by a computed amount (%s)' % (pos, sx(ev.get('rhs')))))
                return 0
            if op == '=':
                r = ev.get('rhs') or {}
                if const_of(r) == 0:
                    return 0 if True else st
                # pos = (q + len) - s
                if r.get('k') == 'bin' and r.get('op') == '-' and is_var(r.get('r'), S) and r['l'].get('k') == 'bin' and r['l'].get('op') == '+':
                    a, b = r['l']['l'], r['l']['r']
                    for q, l in ((a, b), (b, a)):
                        if is_var(q) and q['name'] in derived and is_var(l) and offs.get(l['name']) == q['name']:
                            res.advances += 1
                            return 0
                problems.append((s, 'the cursor %s is set to a computed value (%s)' % (pos, sx(r))))
                return 0
            problems.append((s, 'the cursor %s is modified by %s' % (pos, op)))
            return 0
        for ex in rules.event_exprs(ev):
            reads_in(ex, st, s)
        if ev['k'] == 'ret':
            v = ev.get('val')
            if v is not None and not (const_of(v) == 0 or is_var(v, pos)):
                res.returns_valid_offset = False
        return st

    def on_edge(st, e):
        # reads in the terminator condition
        if e.cond is not None:
            reads_in(e.cond, st, None) if False else None
        if e.label in ('true', 'false') and e.cond is not None:
            r = e.rel()
            if not r:
                return st
            l, op, rr = r
            j, kind = _byte_subject(l, S, pos)
            if j is None or j < 0:
                return st
            c = const_of(rr)
            nz = False
            if kind == 'byte':
                nz = (op == '==' and isinstance(c, int) and c != 0) or (op == '!=' and c == 0) or (op in ('>', '>=') and isinstance(c, int) and c >= 1)
            else:
                nz = (op == '!=' and c == 0)
            if nz and j <= st:
                return min(CAP, max(st, j + 1))
            return st
        if e.label == 'case' and e.cond is not None and e.vs:
            j, kind = _byte_subject(e.cond, S, pos)
            if j is not None and kind == 'byte' and 0 <= j <= st and all(v != 0 for v in e.vs):
                return min(CAP, max(st, j + 1))
        return st

    # ---- snapshots: `ch = s[pos + j]` - a test of the local is a test of that byte while the cursor has not moved past
    # what the snapshot remembers (the offset is shifted with the cursor) and the local has not been re-assigned
    def snap_of(ev):
        val = ev.get('init') if ev['k'] == 'decl' else ev.get('rhs') if ev['k'] == 'store' and ev.get('op') == '=' else None
        tgt = ev.get('var') if ev['k'] == 'decl' else (ev['lhs']['name'] if ev['k'] == 'store' and is_var(ev.get('lhs')) else None)
        if tgt and tgt != pos and isinstance(val, dict) and val.get('k') == 'idx' and is_var(val.get('base'), S):
            j = _offset(val['index'], pos)
            if j is not None:
                return tgt, j
        return None, None

    def ev2(state, s):
        h, snaps = state
        h2 = on_event(h, s)
        ev = s.ev
        sn = set(snaps)
        tgt, j = snap_of(ev)
        wr = ev.get('var') if ev['k'] == 'decl' else (ev['lhs']['name'] if ev['k'] == 'store' and is_var(ev.get('lhs')) else None)
        if wr is not None and wr != pos:
            sn = {(v, k) for (v, k) in sn if v != wr}
            if tgt is not None:
                sn.add((tgt, j))
        if ev['k'] == 'store' and is_var(ev.get('lhs'), pos):
            op = ev.get('op')
            c = const_of(ev.get('rhs'))
            d = 1 if op == '++' else -1 if op == '--' else c if (op == '+=' and isinstance(c, int)) else None
            sn = {(v, k - d) for (v, k) in sn if k - d >= -CAP} if d is not None else set()
        return (h2, frozenset(sn))

    def ed2(state, e):
        h, snaps = state
        h2 = on_edge(h, e)
        if not snaps:
            return (h2, snaps)
        d = dict(snaps)
        if e.label in ('true', 'false') and e.cond is not None:
            r = e.rel()
            if r and is_var(r[0]) and r[0]['name'] in d:
                j = d[r[0]['name']]
                c = const_of(r[2])
                op = r[1]
                nz = (op == '==' and isinstance(c, int) and c != 0) or (op == '!=' and c == 0) or (op in ('>', '>=') and isinstance(c, int) and c >= 1)
                if nz and 0 <= j <= h2:
                    h2 = min(CAP, max(h2, j + 1))
        if e.label == 'case' and e.cond is not None and e.vs and is_var(e.cond) and e.cond['name'] in d:
            j = d[e.cond['name']]
            if 0 <= j <= h2 and all(v != 0 for v in e.vs):
                h2 = min(CAP, max(h2, j + 1))
        return (h2, snaps)
    before2, at_exit2, sin2, bout2 = fn.forward((0, frozenset()), ev2, ed2)
    bout = {b: {st[0] for st in sts} for b, sts in bout2.items()}
    # reads in terminator conditions: checked against the states leaving the block
    for bid, blk in fn.blocks.items():
        c = (blk.get('term') or {}).get('cond')
        if not isinstance(c, dict):
            continue
        sts = bout.get(bid) or set()
        for x in walk(c):
            if x.get('k') == 'idx' and is_var(x['base'], S):
                res.reads += 1
                j = _offset(x['index'], pos)
                for st in sts:
                    if j is None and const_of(x['index']) == 0:
                        break
                    if j is None:
                        problems.append((None, '%s: the subscript is not the cursor plus a constant' % sx(x)))
                        break
                    if j > st:
                        problems.append((('term', bid, (blk.get('term') or {}).get('loc')), '%s reads %d byte(s) beyond the last byte known to be inside the string' % (sx(x), j - st)))
                        break
    # dedupe
    seen, out = set(), []
    for s, m in problems:
        k = (s.key if hasattr(s, 'key') else s, m)
        if k not in seen:
            seen.add(k)
            out.append((s, m))
    res.problems = out
    return res
