"""Thorough tier: the same rules (the verdict is identical by construction) plus
 (a) a who-may-call cross-reference over the units under tests/ (informational),
 (b) the rules are re-evaluated with -DNDEBUG (asserts gone): a disagreement between the two
     configurations is an engine defect and makes the run analysis-broken, never a verdict,
 (c) self-test: every seeded defect of this property (/verif/seeded) and every `fix:` commit of
     this property reverted is applied to a scratch export of the tree (outside /repo and /verif,
     removed at once) and the check must fire on it; outcomes go to evidence and do not change
     the exit status,
 (d) for C08 the Clang Static Analyzer's null-dereference checkers are run as a cross-reference."""
import importlib
import io
import json
import os
import re
import shutil
import subprocess
import sys
import tempfile
import contextlib

from . import facts, model, report

VERIF = os.path.dirname(os.path.dirname(os.path.abspath(__file__)))


def failing(R):
    return sorted({(o['rule'], o['function'], o['key']) for o in R.obligations if not o['ok']})


def evaluate(pid, repo, ndebug=False, with_tests=False):
    out, units = facts.extract(repo, with_tests=with_tests, ndebug=ndebug)
    try:
        P = model.load(out, repo)
        R = report.Report(pid, 'thorough', P)
        mod = importlib.import_module('sa.props.' + pid.lower())
        mod.run(P, R, 'thorough')
        return R
    finally:
        shutil.rmtree(out, ignore_errors=True)


def ndebug_cross_check(pid, repo, R):
    try:
        R2 = evaluate(pid, repo, ndebug=True)
    except facts.AnalysisBroken as e:
        R.broke('NDEBUG re-evaluation could not be completed: %s' % e)
        return {'ndebug': 'broken'}
    a, b = failing(R), failing(R2)
    broke_a = sorted(R.broken)
    broke_b = sorted(R2.broken)
    # floors are judged on the NDEBUG model as well
    for rule, (n, why) in R2.floors.items():
        if R2.counts.get(rule, 0) < n:
            broke_b.append('floor %s' % rule)
    same = (a == b)
    if not same:
        R.broke('rule outcomes differ between -UNDEBUG and -DNDEBUG (a rule leans on an assert): only without NDEBUG %s, only with NDEBUG %s'
                % ([x for x in a if x not in b][:5], [x for x in b if x not in a][:5]))
    return {'ndebug': {'agrees': same, 'instances_debug': len(R.obligations), 'instances_ndebug': len(R2.obligations)}}


def scratch_tree(repo):
    base = tempfile.mkdtemp(prefix='iauthd-selftest-')
    subprocess.check_call('git -C %s ls-files -z | (cd %s && xargs -0 cp --parents -t %s)' % (repo, repo, base), shell=True)
    ac = os.path.join(repo, 'autoconf.h')
    if os.path.exists(ac):
        shutil.copy(ac, base)
    return base


def run_check_on(pid, tree):
    c = subprocess.run([os.path.join(VERIF, 'bin', 'check'), pid, '--repo', tree, '--tier', 'quick', '--evidence-dir', os.path.join(tree, '.verif-ev')], stdout=subprocess.PIPE, stderr=subprocess.STDOUT)
    out = c.stdout.decode(errors='replace')
    rules = sorted(set(re.findall(r'violated (\S+) in', out)))
    return c.returncode, rules


def selftest(pid, repo):
    res = {'killed': [], 'survived': [], 'inapplicable': []}
    muts = []
    sd = os.path.join(VERIF, 'seeded')
    for sid in sorted(os.listdir(sd)) if os.path.isdir(sd) else []:
        mp = os.path.join(sd, sid, 'meta.json')
        if os.path.exists(mp) and json.load(open(mp)).get('breaks_property') == pid:
            muts.append(('seed:' + sid, os.path.join(sd, sid, 'patch.diff'), False))
    kf = os.path.join(VERIF, 'known_findings.jsonl')
    for line in open(kf):
        line = line.strip()
        if not line or line.startswith('#'):
            continue
        e = json.loads(line)
        if e.get('status') == 'fixed' and (e.get('property') == pid or pid in re.findall(r'also (C\d\d)', e.get('line', ''))):
            muts.append(('revert:%s:%s' % (e.get('ledger'), e.get('commit')), e.get('commit'), True))
    for name, src, is_commit in muts:
        tree = scratch_tree(repo)
        try:
            if is_commit:
                d = subprocess.run(['git', '-C', repo, 'show', '--format=', src], stdout=subprocess.PIPE)
                p = subprocess.run(['patch', '-R', '-p1', '-s', '-f', '-d', tree], input=d.stdout, stdout=subprocess.PIPE, stderr=subprocess.STDOUT)
            else:
                p = subprocess.run(['patch', '-p1', '-s', '-f', '-d', tree, '-i', src], stdout=subprocess.PIPE, stderr=subprocess.STDOUT)
            if p.returncode != 0:
                res['inapplicable'].append({'mutant': name, 'why': 'patch does not apply to the current tree'})
                continue
            rc, rules = run_check_on(pid, tree)
            (res['killed'] if rc == 1 else res['survived']).append({'mutant': name, 'exit': rc, 'rules': rules})
        finally:
            shutil.rmtree(tree, ignore_errors=True)
    return {'selftest': {'mutants': len(muts), 'killed': len(res['killed']), 'survived': len(res['survived']), 'inapplicable': len(res['inapplicable']), 'detail': res}}


def csa_cross_reference(repo):
    units = [u for u in facts.list_units(repo) if u.startswith('modules/')]
    fl = facts.flags(repo)
    found = []
    for u in units:
        c = subprocess.run(['clang-tidy', '-checks=-*,clang-analyzer-core.NullDereference,clang-analyzer-core.NonNullParamChecker', os.path.join(repo, u), '--'] + fl,
                           stdout=subprocess.PIPE, stderr=subprocess.DEVNULL)
        for m in re.finditer(r'^(\S+?):(\d+):\d+: warning: (.*?) \[(clang-analyzer[^\]]+)\]', c.stdout.decode(errors='replace'), re.M):
            found.append({'file': os.path.relpath(m.group(1), repo), 'line': int(m.group(2)), 'msg': m.group(3), 'checker': m.group(4)})
    return {'csa_cross_reference': {'units': len(units), 'reports': found, 'note': 'informational; the verdict comes from the repository-specific NULLARG rule'}}


def tests_audit(pid, repo):
    """Who-may-call cross-reference over the units under tests/: which daemon functions the test
    programs call and which daemon globals they write.  Informational (the test harness is not part
    of the daemon), recorded so that a test that starts poking at protocol internals is visible."""
    out, units = facts.extract(repo, with_tests=True)
    try:
        P = model.load(out, repo)
        calls, writes = {}, {}
        for f in P.fns.values():
            if not f.unit.startswith('tests/'):
                continue
            for s in f.calls():
                for t in P.callees(s, False):
                    if not t.unit.startswith('tests/'):
                        calls.setdefault(t.unit, set()).add(t.name)
            for s in f.stores():
                rv = model.root_var(s.ev.get('lhs') or s.ev.get('set') or {})
                if rv is not None and rv.get('sc') == 'global' and P.global_def(rv['name']) and not P.global_def(rv['name'])[0].startswith('tests/'):
                    writes.setdefault(rv['name'], set()).add(f.name)
        return {'tests_audit': {'units': len([u for u in units if u.startswith('tests/')]),
                                'daemon_functions_called': {k: sorted(v) for k, v in sorted(calls.items())},
                                'daemon_globals_written': {k: sorted(v) for k, v in sorted(writes.items())}}}
    finally:
        shutil.rmtree(out, ignore_errors=True)


def run(pid, repo, R):
    extra = {}
    try:
        extra.update(tests_audit(pid, repo))
    except Exception as e:
        extra['tests_audit'] = {'error': str(e)[:300]}
    extra.update(ndebug_cross_check(pid, repo, R))
    extra.update(selftest(pid, repo))
    if pid == 'C08':
        try:
            extra.update(csa_cross_reference(repo))
        except Exception as e:   # the cross-reference never affects the verdict
            extra['csa_cross_reference'] = {'error': str(e)}
    return extra
