"""Reusable analyses (the rule vocabulary of DESIGN.md 3.3) on top of sa.model."""
import collections

from .facts import AnalysisBroken
from .model import (sx, walk, rel, rel_str, is_var, is_field, is_int, const_of, root_var,
                    vars_in, mentions_field, same, NORETURN)

# externals whose listed parameters must be non-null and are dereferenced
EXT_NONNULL = {
    'strncpy': (0, 1), 'strcpy': (0, 1), 'strlcpy': (0, 1), 'strcmp': (0, 1), 'strncmp': (0, 1),
    'strcasecmp': (0, 1), 'strncasecmp': (0, 1), 'strlen': (0,), 'strchr': (0,), 'strrchr': (0,),
    'memcpy': (0, 1), 'memset': (0,), 'memcmp': (0, 1), 'strtol': (0,), 'strtoul': (0,),
    'strtod': (0,), 'fputs': (0, 1), 'fnmatch': (0, 1), 'strdup': (0,), 'atoi': (0,),
    'irc_pton': (2,),
}


# ---- small helpers ---------------------------------------------------------------------
def norm_lhs(e):
    """`(x = f())` used as a condition denotes x."""
    while isinstance(e, dict) and e.get('k') == 'bin' and e['op'] == '=':
        e = e['l']
    return e


def edge_rel(edge):
    r = edge.rel()
    if r is None:
        return None
    return (norm_lhs(r[0]), r[1], r[2])


def lower_bound_from_rel(r, var):
    """If relation r implies `var > k` for integer k, return k (largest), else None."""
    l, op, rr = r
    c = const_of(rr)
    if not is_var(l, var) or c is None:
        return None
    if op == '>':
        return c
    if op == '>=':
        return c - 1
    if op == '!=' and c == 0:
        return 0      # unsigned/size counters: != 0 means > 0
    return None


def upper_bound_from_rel(r, var):
    """If relation r implies `var < n`, return n (smallest), else None."""
    l, op, rr = r
    c = const_of(rr)
    if not is_var(l, var) or c is None:
        return None
    if op == '<':
        return c
    if op == '<=':
        return c + 1
    if op == '==':
        return c + 1
    return None


def event_exprs(ev):
    """Expression trees evaluated by an event."""
    k = ev['k']
    if k == 'call':
        out = list(ev['args'])
        if ev.get('fexpr'):
            out.append(ev['fexpr'])
        return out
    if k == 'store':
        return [ev['lhs']] + ([ev['rhs']] if ev.get('rhs') is not None else [])
    if k in ('bitset', 'bitclear'):
        return [ev['set']] + ([ev['bitexpr']] if ev.get('bitexpr') else [])
    if k == 'decl':
        return [ev['init']] if ev.get('init') is not None else []
    if k == 'ret':
        return [ev['val']] if ev.get('val') is not None else []
    return []


def says_nonnull(c, pol, var):
    """condition c, taken with polarity pol, says that var is not NULL (one of its conjuncts does)"""
    if isinstance(c, dict) and c.get('k') == 'bin' and c.get('op') == ('&&' if pol else '||'):
        return says_nonnull(c['l'], pol, var) or says_nonnull(c['r'], pol, var)
    r = rel(c, pol)
    return bool(r) and is_var(r[0], var) and r[1] == '!=' and const_of(r[2]) == 0


def derefs_of(e, var):
    """Sub-expressions of e that dereference variable `var` (var[i], *var, var->f)."""
    out = []

    def nonnull_test(c, pol):
        """c, taken with polarity pol, says that var is not NULL (one of its conjuncts does)"""
        if isinstance(c, dict) and c.get('k') == 'bin' and c.get('op') == ('&&' if pol else '||'):
            return nonnull_test(c['l'], pol) or nonnull_test(c['r'], pol)
        r = rel(c, pol)
        return bool(r) and is_var(r[0], var) and r[1] == '!=' and const_of(r[2]) == 0

    def shielded(e):
        """sub-expressions evaluated only when var is known not to be NULL: the right operand of `var && ...` / `!var || ...`,
        the selected arm of `var ? ... : ...`"""
        sh = []
        for x in walk(e):
            if x.get('k') == 'bin' and x.get('op') == '&&' and nonnull_test(x['l'], True):
                sh.append(x['r'])
            elif x.get('k') == 'bin' and x.get('op') == '||' and nonnull_test(x['l'], False):
                sh.append(x['r'])
            elif x.get('k') == 'cond' and nonnull_test(x.get('c'), True):
                sh.append(x.get('t'))
            elif x.get('k') == 'cond' and nonnull_test(x.get('c'), False):
                sh.append(x.get('f'))
        return sh
    skip = set()
    for sub in shielded(e):
        for y in walk(sub):
            skip.add(id(y))
    for x in walk(e):
        if id(x) in skip:
            continue
        k = x.get('k')
        if k == 'idx' and is_var(x['base'], var):
            out.append(x)
        elif k == 'mem' and x.get('arrow') and is_var(x['base'], var):
            out.append(x)
        elif k == 'un' and x['op'] == '*' and is_var(x['e'], var):
            out.append(x)
    return out


def stores_to_var(ev, var):
    if ev['k'] == 'store' and is_var(ev.get('lhs'), var):
        return True
    if ev['k'] == 'decl' and ev.get('var') == var and ev.get('init') is not None:
        return True
    return False


# ---- DEREF summaries (NULLARG) ------------------------------------------------------------
class Deref(object):
    """DEREF(f, i): f may dereference parameter i on a path with no dominating null test."""

    def __init__(self, prog):
        self.P = prog
        self.memo = {}
        self.witness = {}

    def deref(self, fn, i, stack=()):
        key = (fn.key, i)
        if key in self.memo:
            return self.memo[key]
        if key in stack:
            return False
        if i >= len(fn.params):
            return False
        res = self._compute(fn, i, stack + (key,))
        self.memo[key] = res
        return res

    def _compute(self, fn, i, stack):
        p = fn.params[i]
        # aliases: locals initialised from the parameter (pointer arithmetic on them keeps them derived)
        names = {p}
        for s in fn.sites():
            ev = s.ev
            if ev['k'] == 'decl' and is_var(ev.get('init')) and ev['init']['name'] in names:
                names.add(ev['var'])
        P = self.P
        hit = []

        def asserts(bid):
            b = fn.blocks.get(bid)
            if b is None:
                return False        # an edge derived from a folded helper's returned condition: it has no target block
            return b.get('noreturn') and any(t.ev.get('callee') == '__assert_fail' for t in fn.block_sites(bid))

        def on_edge(st, e):
            r = edge_rel(e)
            if st in ('null', 'nonnull') and r and is_var(r[0]) and r[0]['name'] in names and const_of(r[2]) == 0 and r[1] in ('==', '!='):
                # a second test of the same pointer: the contradicting edge cannot be taken
                if (st == 'null') != (r[1] == '=='):
                    return None
                return st
            if st in ('maybe', 'null') and r and is_var(r[0]) and r[0].get('sc') == 'local' and r[0]['name'] not in names and r[1] == '!=' and const_of(r[2]) == 0:
                # a flag computed from the pointer: `named = (p != NULL && p[0] != 0); ... if (named) use(p)` - on a path
                # that found the pointer NULL the flag is clear and this edge cannot be taken
                d = fn.single_def(r[0]['name'])
                if d and isinstance(d[1], dict) and any(says_nonnull(d[1], True, n) for n in names):
                    return None if st == 'null' else 'nonnull'
            if st != 'maybe':
                return st
            if r and is_var(r[0]) and r[0]['name'] in names and const_of(r[2]) == 0:
                if r[1] == '!=':
                    return 'nonnull'
                if r[1] == '==':
                    if asserts(e.dst):
                        hit.append((fn.block_sites(e.dst)[0], 'asserts that %s is not NULL' % r[0]['name']))
                    return 'null'
            return st

        def on_event(st, s):
            ev = s.ev
            if st in ('nonnull', 'reassigned'):
                return st
            for n in names:
                if ev['k'] == 'store' and ev.get('op') == '=' and is_var(ev.get('lhs'), n):
                    return 'reassigned'
            bad = None
            for ex in event_exprs(ev):
                for n in names:
                    if derefs_of(ex, n):
                        bad = 'dereferences %s' % n
            if ev['k'] == 'call':
                for j, a in enumerate(ev['args']):
                    if not (is_var(a) and a['name'] in names):
                        continue
                    ts = P.callees(s, True)
                    if ev.get('callee') and not ts:
                        if j in EXT_NONNULL.get(ev['callee'], ()):
                            bad = 'passes %s to %s (non-null parameter %d)' % (a['name'], ev['callee'], j)
                    for t in ts:
                        if self.deref(t, j, stack):
                            bad = 'passes %s to %s, which dereferences its parameter %d' % (a['name'], t.name, j)
            if bad:
                hit.append((s, bad))
            return st

        before, _, sin, bout = fn.forward('maybe', on_event, on_edge)
        # conditions are evaluated too
        for bid, sts in bout.items():
            c = fn.term_cond(bid)
            if c is None:
                continue
            if any(st in ('maybe', 'null') for st in sts):
                for n in names:
                    if derefs_of(c, n):
                        hit.append((None, 'a branch condition dereferences %s' % n))
        if hit:
            self.witness[(fn.key, i)] = hit[0]
            return True
        return False

    def why(self, fn, i):
        w = self.witness.get((fn.key, i))
        if not w:
            return ''
        s, msg = w
        return '%s %s%s' % (fn.name, msg, (' at ' + s.loc) if s is not None else '')


def check_argvec(prog, fn, argc, argv, deref, R, rule, init_lb=-1, depth=0):
    """NULLARG: inside fn, every dereference of argv[k] and every pass of argv[k] to a
    DEREF parameter needs `argc > k` on all paths; (argc, argv) pairs passed on together
    are checked in the callee."""
    def on_edge(lb, e):
        r = edge_rel(e)
        if r:
            k = lower_bound_from_rel(r, argc)
            if k is not None and k > lb:
                return k
        return lb

    def on_event(lb, s):
        ev = s.ev
        if stores_to_var(ev, argc) and ev['k'] == 'store':
            return -1
        return lb

    before, _, sin, bout = fn.forward(init_lb, on_event, on_edge)
    n = 0

    def need(k, site_key, site, what, ckey):
        nonlocal n
        n += 1
        sts = before.get(site_key) if site_key in before else None
        worst = min(sts) if sts else None
        ok = worst is not None and worst >= k
        R.ob(rule, ok, site, what + ' needs argc > %d on every path (established: %s)'
             % (k, 'argc > %d' % worst if worst is not None and worst >= 0 else 'nothing'), key=ckey)

    for s in fn.sites():
        ev = s.ev
        for ex in event_exprs(ev):
            for x in walk(ex):
                # argv[k][..] / *argv[k]
                if x.get('k') in ('idx',) and x['base'].get('k') == 'idx' and is_var(x['base']['base'], argv):
                    k = const_of(x['base']['index'])
                    if k is not None:
                        need(k, s.key, s, 'dereference %s' % sx(x), 'deref:%s' % sx(x))
                if x.get('k') == 'un' and x['op'] == '*' and x['e'].get('k') == 'idx' and is_var(x['e']['base'], argv):
                    k = const_of(x['e']['index'])
                    if k is not None:
                        need(k, s.key, s, 'dereference %s' % sx(x), 'deref:%s' % sx(x))
        if ev['k'] == 'call':
            ts = prog.callees(s, True)
            passes_pair = any(is_var(a, argc) for a in ev['args']) and any(is_var(a, argv) for a in ev['args'])
            for j, a in enumerate(ev['args']):
                if a.get('k') == 'idx' and is_var(a['base'], argv):
                    k = const_of(a['index'])
                    if k is None:
                        continue
                    callee = ev.get('callee') or prog.call_slot(s)
                    if ev.get('callee') and not ts:
                        if j in EXT_NONNULL.get(ev['callee'], ()):
                            need(k, s.key, s, 'pass %s to %s (non-null parameter)' % (sx(a), ev['callee']),
                                 'pass:%s:%s' % (sx(a), ev['callee']))
                    for t in ts:
                        if deref.deref(t, j):
                            need(k, s.key, s, 'pass %s to %s [%s]' % (sx(a), t.name, deref.why(t, j)),
                                 'pass:%s:%s' % (sx(a), callee))
                        else:
                            n += 1
                            R.ob(rule, True, s, 'pass %s to %s: callee tolerates NULL' % (sx(a), t.name),
                                 key='pass:%s:%s' % (sx(a), t.name))
            if passes_pair and depth < 3:
                for t in ts:
                    ci = [j for j, a in enumerate(ev['args']) if is_var(a, argc)][0]
                    vi = [j for j, a in enumerate(ev['args']) if is_var(a, argv)][0]
                    if ci < len(t.params) and vi < len(t.params):
                        sts = before.get(s.key)
                        lb = min(sts) if sts else -1
                        n += check_argvec(prog, t, t.params[ci], t.params[vi], deref, R, rule, lb, depth + 1)
    # conditions
    for bid, sts in bout.items():
        c = fn.term_cond(bid)
        if c is None or not sts:
            continue
        for x in walk(c):
            if x.get('k') == 'idx' and x['base'].get('k') == 'idx' and is_var(x['base']['base'], argv):
                k = const_of(x['base']['index'])
                if k is not None:
                    n += 1
                    worst = min(sts)
                    ok = worst >= k
                    term = fn.blocks[bid].get('term') or {}
                    R.ob(rule, ok, prog.relloc(term.get('loc', fn.d.get('loc', '?'))),
                         'condition dereferences %s in %s: needs argc > %d on every path (established: %s)'
                         % (sx(x), fn.name, k, 'argc > %d' % worst if worst >= 0 else 'nothing'),
                         key='cond-deref:%s' % sx(x))
                    R.obligations[-1]['function'] = fn.name
    return n


# ---- bounded index stores (BND idiom 11) ---------------------------------------------------
def index_bound_states(fn, ivar):
    """Forward dataflow of the best known strict upper bound of integer variable ivar
    (None = unknown).  Returns before-map."""
    INF = 10 ** 9

    def on_edge(ub, e):
        r = edge_rel(e)
        if r:
            n = upper_bound_from_rel(r, ivar)
            if n is not None and n < ub:
                return n
        return ub

    def on_event(ub, s):
        ev = s.ev
        if ev['k'] == 'store' and is_var(ev.get('lhs'), ivar):
            if ev.get('op') == '++' and ub < INF:
                return ub + 1
            if ev.get('op') == '=' and const_of(ev.get('rhs')) is not None:
                return const_of(ev['rhs']) + 1
            return INF
        if ev['k'] == 'decl' and ev.get('var') == ivar:
            c = const_of(ev.get('init'))
            return c + 1 if c is not None else INF
        if ev['k'] == 'call':
            for a in ev['args']:
                if a.get('k') == 'un' and a['op'] == '&' and is_var(a['e'], ivar):
                    return INF
        return ub

    before, _, sin, bout = fn.forward(INF, on_event, on_edge)
    return before, bout, INF


def max_index_at_store(fn, site, idx_expr, cache):
    """Largest value the index expression of a store can take (exclusive bound), or None."""
    e = idx_expr
    post_inc_ev = None
    if e.get('k') == 'un' and e['op'] in ('++', '--') and is_var(e['e']):
        ivar = e['e']['name']
        post_inc_ev = e.get('ev')
    elif is_var(e):
        ivar = e['name']
    elif const_of(e) is not None:
        return const_of(e) + 1
    else:
        return None
    if ivar not in cache:
        cache[ivar] = index_bound_states(fn, ivar)
    before, bout, INF = cache[ivar]
    key = site.key
    if post_inc_ev is not None:
        # the bound must hold before the increment event embedded in the subscript
        for s in fn.sites():
            if s.ev.get('id') == post_inc_ev:
                key = s.key
                if not s.ev.get('prefix') is False and s.ev.get('prefix'):
                    # prefix form: the stored index is the incremented value
                    sts = before.get(key)
                    return None if not sts or max(sts) >= INF else max(sts) + 1
                break
    sts = before.get(key)
    if not sts:
        return None
    m = max(sts)
    return None if m >= INF else m


# ---- must-pass-through with interprocedural 'always performs' summaries ----------------------
class Always(object):
    """ALWAYS(f, pred): every entry->exit path of f contains an event satisfying pred, where
    a call counts when some... every possible callee ALWAYS performs it (bottom-up, recursion cut)."""

    def __init__(self, prog, pred, may=True):
        self.P, self.pred, self.may = prog, pred, may
        self.memo = {}

    def site_counts(self, s, stack=()):
        if self.pred(s):
            return True
        if s.ev['k'] == 'call':
            ts = self.P.callees(s, self.may)
            if ts and all(self.always(t, stack) for t in ts):
                return True
        return False

    def always(self, fn, stack=()):
        if fn.key in self.memo:
            return self.memo[fn.key]
        if fn.key in stack:
            return False
        st = stack + (fn.key,)
        res = fn.path_avoiding(None, lambda s: self.site_counts(s, st), from_entry=True) is None
        self.memo[fn.key] = res
        return res


class May(object):
    """MAY(f, pred): some path of f contains an event satisfying pred (own or a callee's)."""

    def __init__(self, prog, pred, may=True):
        self.P, self.pred, self.may = prog, pred, may
        self.memo = {}

    def may_fn(self, fn, stack=()):
        if fn.key in self.memo:
            return self.memo[fn.key]
        if fn.key in stack:
            return False
        st = stack + (fn.key,)
        live = fn.reachable_blocks()
        res = False
        for s in fn.sites():
            if s.bid in live and self.site_may(s, st):
                res = True
                break
        self.memo[fn.key] = res
        return res

    def site_may(self, s, stack=()):
        if self.pred(s):
            return True
        if s.ev['k'] == 'call':
            for t in self.P.callees(s, self.may):
                if self.may_fn(t, stack):
                    return True
        return False


def expanded_guards(prog, f, bid):
    """Relations established on every path to block bid, with relations on single-definition boolean
    locals (`have_x = (p->x[0] != 0)`) replaced by the comparison they were defined from - provided the
    fields the definition reads cannot be written between the definition and the guarded block."""
    from . import holds
    from .model import rel as mkrel
    fw = holds.FieldWrites(prog)
    out = []
    for e in f.dominating_edges(bid):
        r = edge_rel(e)
        if r is None:
            continue
        out.append(r)
        l, op, rr = r
        if is_var(l) and l.get('sc') == 'local' and const_of(rr) == 0 and op in ('==', '!='):
            d = f.single_def(l['name'])
            if not d:
                continue
            ds, val = d
            if not (isinstance(val, dict) and (val.get('k') == 'bin' and val['op'] in ('==', '!=', '<', '>', '<=', '>=') or val.get('k') in ('bittest', 'un'))):
                continue
            if not (ds.bid == e.src or f.dominates(ds.bid, e.src)):
                continue
            fields = {x['field'] for x in walk(val) if x.get('k') == 'mem'}
            # sites that can execute after the definition and before the edge
            if ds.bid == e.src:
                mid = f.block_sites(ds.bid)[ds.idx + 1:]
            else:
                after = f.reach([x.dst for x in f.out[ds.bid]])
                mid = f.block_sites(ds.bid)[ds.idx + 1:] + [t for b in after if e.src in f.reach([b]) for t in f.block_sites(b)]
            if any(fw.site_writes(t, fld) for t in mid for fld in fields):
                continue
            if not f.no_store_between(ds, type('S', (), {'bid': e.src, 'idx': len(f.block_sites(e.src))})(), vars_in(val)):
                continue
            out.append(mkrel(val, op == '!='))
    return out


# ---- misc ----------------------------------------------------------------------------------
def callers_of(prog, name, unit=None):
    """(fn, site) for every direct call to function `name` anywhere in the program."""
    out = []
    for f in prog.fns.values():
        for s in f.calls(name):
            out.append(s)
    return out


def fmt_literal(ev, idx):
    a = ev['args'][idx] if idx < len(ev['args']) else None
    if isinstance(a, dict) and a.get('k') == 'str':
        return a['v']
    return None


def field_stores(prog, field, rec=None):
    """All store events whose target (outermost) is field `rec::field` (any base)."""
    out = []
    for f in prog.fns.values():
        for s in f.stores():
            lhs = s.ev.get('lhs')
            if lhs is not None and is_field(lhs, field, rec):
                out.append(s)
    return out


def is_call(site, name):
    return site.ev['k'] == 'call' and site.ev.get('callee') == name


def interval_forward(fn, ident, window=(-4, 8), kill=None):
    """Small path-sensitive interval analysis over a few named quantities.  ident(expr) -> name or None picks the
    expressions that are tracked (a global, a parameter, a field); every branch `x op constant` refines x's interval
    on its edge; kill(site) -> iterable of names whose value the event may change.  Intervals are clamped to `window`
    (values outside only matter as "below" / "above"), so the domain is finite.
    Returns before: site key -> set of states, a state being a tuple of (name, lo, hi)."""
    lo_w, hi_w = window

    def clamp(a, b):
        return (max(lo_w, min(hi_w, a)), max(lo_w, min(hi_w, b)))

    def refine(iv, op, c):
        lo, hi = iv
        if op == '==':
            lo, hi = max(lo, c), min(hi, c)
        elif op == '!=':
            if lo == hi == c:
                return None
            if lo == c:
                lo += 1
            if hi == c:
                hi -= 1
        elif op == '<':
            hi = min(hi, c - 1)
        elif op == '<=':
            hi = min(hi, c)
        elif op == '>':
            lo = max(lo, c + 1)
        elif op == '>=':
            lo = max(lo, c)
        if lo > hi:
            return None
        return clamp(lo, hi)

    def on_edge(st, e):
        r = edge_rel(e)
        if not r:
            return st
        l, op, rr = r
        c = const_of(rr)
        nm = ident(l)
        if nm is None or not isinstance(c, int):
            return st
        d = dict((n, (a, b)) for n, a, b in st)
        iv = d.get(nm, (lo_w, hi_w))
        if not (lo_w < c < hi_w):
            return st
        nv = refine(iv, op, c)
        if nv is None:
            return None
        d[nm] = nv
        return tuple(sorted((n, a, b) for n, (a, b) in d.items()))

    def on_event(st, s):
        if kill is None:
            return st
        ks = set(kill(s) or ())
        if not ks:
            return st
        return tuple(x for x in st if x[0] not in ks)
    before, at_exit, sin, bout = fn.forward((), on_event, on_edge)
    return before


def interval_of(st, name, window=(-4, 8)):
    for n, a, b in st:
        if n == name:
            return (a, b)
    return window


def atom_forward(fn, classify, kill=None, limit=20000, symbolic=None, extra0=None, step=None, edge_hook=None):
    """Path-sensitive facts with constant propagation of integer locals.

    classify(rel) -> iterable of (fact name, bool) implied when the relation rel = (lhs, op, rhs) holds;
    kill(site) -> iterable of fact names the event invalidates.  Besides the facts, the state carries the known
    constant values of integer locals (assigned constants, `|=`, `&=`, `+=`, `-=` of constants), so that a
    condition encoded into a flag variable and tested later (`have |= 2; ... switch (have)`) prunes the
    infeasible combinations exactly like the nested ifs it replaces.
    symbolic(rhs) -> hashable or None lets a local also carry a symbolic value (e.g. which field a pointer was
    set to); extra0 / step(extra, site, facts, consts) -> extra thread a rule-specific component through the state.
    Returns before: site key -> set of states; use facts_of(state) / consts_of(state) / extra_of(state)."""
    # locals stepped around a loop without being re-initialised on the way are not constants worth following
    varying = set()
    inits = {}
    for t in fn.sites():
        ev = t.ev
        if ev['k'] == 'store' and is_var(ev.get('lhs')) and ev.get('op') == '=' and const_of(ev.get('rhs')) is not None:
            inits.setdefault(ev['lhs']['name'], set()).add(t.bid)
        if ev['k'] == 'decl' and ev.get('var') and const_of(ev.get('init')) is not None:
            inits.setdefault(ev['var'], set()).add(t.bid)
    for t in fn.sites():
        ev = t.ev
        if ev['k'] == 'store' and is_var(ev.get('lhs')) and ev.get('op') in ('++', '--', '+=', '-=', '*=', '<<=', '>>=', '|=', '&=', '^='):
            v = ev['lhs']['name']
            cut = inits.get(v, set()) - {t.bid}
            if t.bid in fn.reach([e.dst for e in fn.out[t.bid]], cut_blocks=cut):
                varying.add(v)

    def apply_op(op, a, c):
        try:
            return {'=': c, '|=': a | c, '&=': a & c, '+=': a + c, '-=': a - c, '^=': a ^ c, '<<=': a << c, '>>=': a >> c, '*=': a * c}[op]
        except Exception:
            return None

    def holds(v, op, c):
        return {'==': v == c, '!=': v != c, '<': v < c, '<=': v <= c, '>': v > c, '>=': v >= c}[op]

    def on_event(st, s):
        facts, consts = st[0], st[1]
        extra = st[2] if len(st) > 2 else None
        if step is not None:
            extra = step(extra, s, dict(facts), dict(consts))
        r = _on_event2((facts, consts), s)
        return (r[0], r[1], extra)

    def _on_event2(st, s):
        facts, consts = st
        ev = s.ev
        if kill is not None:
            ks = set(kill(s) or ())
            if ks:
                facts = tuple(x for x in facts if x[0] not in ks)
        v = rhs = op = None
        if ev['k'] == 'store' and is_var(ev.get('lhs')) and ev['lhs'].get('sc') == 'local':
            v, rhs, op = ev['lhs']['name'], ev.get('rhs'), ev.get('op')
        elif ev['k'] == 'decl' and ev.get('var'):
            v, rhs, op = ev['var'], ev.get('init'), '='
        if v is not None and v in varying:
            v = None
        if v is not None:
            d = dict(consts)
            c = const_of(rhs) if rhs is not None else None
            if op in ('++', '--') and isinstance(d.get(v), int):
                d[v] = d[v] + (1 if op == '++' else -1)
            elif op == '=' and isinstance(c, int):
                d[v] = c
            elif op == '=' and symbolic is not None and isinstance(rhs, dict) and symbolic(rhs) is not None:
                d[v] = symbolic(rhs)
            elif op in ('++', '--'):
                d.pop(v, None)
            elif op in ('|=', '&=', '+=', '-=', '^=', '<<=', '>>=', '*=') and isinstance(c, int) and isinstance(d.get(v), int) and apply_op(op, d[v], c) is not None:
                d[v] = apply_op(op, d[v], c)
            else:
                d.pop(v, None)
            consts = tuple(sorted(d.items()))
        return (facts, consts)

    def add_facts(facts, new):
        d = dict(facts)
        for k, val in new:
            if k in d and d[k] != val:
                return None
            d[k] = val
        return tuple(sorted(d.items()))

    def on_edge(st, e):
        r = _on_edge2((st[0], st[1]), e)
        if r is None:
            return None
        extra = st[2] if len(st) > 2 else None
        if edge_hook is not None:
            rr_ = edge_rel(e)
            if rr_:
                extra = edge_hook(extra, dict(r[0]), dict(r[1]), rr_)
                if extra is False:
                    return None
        return (r[0], r[1], extra)

    def _on_edge2(st, e):
        facts, consts = st
        d = dict(consts)
        if e.label in ('case', 'default') and e.cond is not None:
            if is_var(e.cond) and isinstance(d.get(e.cond['name']), int):
                v = d[e.cond['name']]
                if e.label == 'case' and v not in (e.vs or []):
                    return None
                if e.label == 'default' and v in (e.notin or []):
                    return None
            elif is_var(e.cond) and e.cond.get('sc') == 'local' and e.label == 'case' and e.vs and len(e.vs) == 1:
                d[e.cond['name']] = e.vs[0]
                consts = tuple(sorted(d.items()))
            # a switch over something else: let the rule see each label as an equality
            nf = facts
            if e.label == 'case' and e.vs and len(e.vs) == 1:
                nf = add_facts(facts, list(classify((e.cond, '==', {'k': 'int', 'v': e.vs[0]})) or ()))
            elif e.label == 'case' and e.vs:
                nf = add_facts(facts, list(classify((e.cond, 'in', {'k': 'set', 'vs': sorted(e.vs)})) or ()))
            elif e.label == 'default':
                nf = add_facts(facts, list(classify((e.cond, 'notin', {'k': 'set', 'vs': sorted(e.notin or [])})) or ()))
            if nf is None:
                return None
            return (nf, consts)
        r = edge_rel(e)
        if not r:
            return st
        l, op, rr = r
        c = const_of(rr)
        if is_var(l) and l.get('sc') == 'local' and isinstance(c, int) and op in ('==', '!=', '<', '<=', '>', '>='):
            if isinstance(d.get(l['name']), int):
                if not holds(d[l['name']], op, c):
                    return None
            elif isinstance(d.get(l['name']), tuple) and c == 0 and op in ('==', '!='):
                # a symbolic value is the address of something (non-null) unless it is the null marker
                isnull = d[l['name']] == ('null',)
                if isnull != (op == '=='):
                    return None
            elif op == '==':
                d[l['name']] = c
                consts = tuple(sorted(d.items()))
        # a masked test of a known flag word: (v & K) != 0
        if isinstance(l, dict) and l.get('k') == 'bin' and l.get('op') == '&' and is_var(l.get('l')) and isinstance(d.get(l['l']['name']), int) and isinstance(const_of(l.get('r')), int) and isinstance(c, int) \
                and op in ('==', '!='):
            if not holds(d[l['l']['name']] & const_of(l['r']), op, c):
                return None
        new = list(classify(r) or ())
        # a local that snapshots a condition (`have = (x[0] != 0)`) tested later stands for that condition
        if is_var(l) and l.get('sc') == 'local' and c == 0 and op in ('==', '!='):
            sd = fn.single_def(l['name'])
            if sd and isinstance(sd[1], dict) and (sd[1].get('k') == 'bin' and sd[1].get('op') in ('==', '!=', '<', '<=', '>', '>=') or (sd[1].get('k') == 'un' and sd[1].get('op') == '!')):
                from .model import rel as _rel
                new += list(classify(_rel(sd[1], op == '!=')) or ())
        nf = add_facts(facts, new)
        if nf is None:
            return None
        return (nf, consts)
    before, at_exit, sin, bout = fn.forward(((), (), extra0), on_event, on_edge, limit=limit)
    return before


def facts_of(st):
    return dict(st[0])


def consts_of(st):
    return dict(st[1])


def extra_of(st):
    return st[2] if len(st) > 2 else None


def bitset_primitives(P, R, rule):
    """The word-wise set operations compute what their names say: and -> in1 & in2, or -> in1 | in2, andnot and the
    horizontal test -> in1 & ~in2 (first operand kept, second complemented), over the same word index."""
    want = {'bitset_and': ('&', False), 'bitset_or': ('|', False), 'bitset_andnot': ('&', True), 'bitset_h_andnot': ('&', True)}
    n = 0
    for name, (op, neg2) in want.items():
        f = P.fn(name)
        if f is None:
            continue
        ins = [p['name'] for p in f.param_info if p.get('t', '').startswith('const bitset_page_t')]
        if len(ins) != 2:
            continue
        cands = []
        for s in f.sites():
            for ex in event_exprs(s.ev):
                cands += [x for x in walk(ex)]
        for b in f.blocks.values():
            c = (b.get('term') or {}).get('cond')
            if isinstance(c, dict):
                cands += [x for x in walk(c)]
        hits = [x for x in cands if x.get('k') == 'bin' and x.get('op') in ('&', '|', '^') and {v for v in vars_in(x)} >= set(ins)]
        if not hits:
            # the result word is not formed from both inputs in one expression (e.g. `out = in2; out |= in1`): callers
            # pass the destination as an operand (`or(x, x, y)`), so a two-step form reads its own half-written output
            n += 1
            R.ob(rule, False, f, '%s forms each result word from both input words in one expression (safe when the destination is one of the operands)' % name, key='bitset:%s' % name)
            continue
        x = hits[0]

        def plain(e, v):
            return isinstance(e, dict) and e.get('k') == 'idx' and is_var(e['base'], v)

        def compl(e, v):
            return isinstance(e, dict) and e.get('k') == 'un' and e.get('op') == '~' and plain(e.get('e'), v)
        if neg2:
            ok = x['op'] == op and ((plain(x['l'], ins[0]) and compl(x['r'], ins[1])) or (compl(x['l'], ins[1]) and plain(x['r'], ins[0])))
        else:
            ok = x['op'] == op and ((plain(x['l'], ins[0]) and plain(x['r'], ins[1])) or (plain(x['l'], ins[1]) and plain(x['r'], ins[0])))
        same_ix = len({sx(y['index']) for y in walk(x) if y.get('k') == 'idx'}) == 1
        n += 1
        R.ob(rule, ok and same_ix, f, '%s combines its operands as %s (computes %s)' % (name, 'in1 & ~in2' if neg2 else 'in1 %s in2' % op, sx(x)), key='bitset:%s' % name)
    R.floor(rule, 3, 'word-wise set operations')
    # primitives that ADD bits (the ones called ..._set...) keep what is already in the word: every store they make into
    # the set is an `|=` (a helper that assigns a freshly built mask wipes the bits an earlier call put there)
    un = (P.fn('bitset_or') or P.fn('bitset_and'))
    if un is not None:
        for f in P.unit_fns(un.unit):
            if '_set' not in f.name or not f.params:
                continue
            setp = f.params[0]
            # edges decided by constants (a folded helper's selector argument) are not taken
            dead_edges = []
            for b0 in f.reachable_blocks():
                for e in f.out[b0]:
                    r0 = e.rel() if e.cond is not None and e.label not in ('case', 'default') else None
                    if r0 and isinstance(const_of(r0[0]), int) and isinstance(const_of(r0[2]), int):
                        a0, c0 = const_of(r0[0]), const_of(r0[2])
                        if not {'==': a0 == c0, '!=': a0 != c0, '<': a0 < c0, '<=': a0 <= c0, '>': a0 > c0, '>=': a0 >= c0}.get(r0[1], True):
                            dead_edges.append(e)
            feasible = f.reach([f.entry], cut_edges=dead_edges)
            for s in f.stores():
                l = s.ev.get('lhs') or {}
                if s.bid not in feasible:
                    continue
                if s.ev['k'] == 'store' and l.get('k') in ('idx', 'un') and root_var(l) is not None and is_var(root_var(l), setp):
                    # a shared set/clear helper folded in with a constant selector: the other arm cannot run here
                    dead = False
                    for g in f.guards(s.bid):
                        if is_var(g[0]) and isinstance(const_of(g[2]), int):
                            sd = f.single_def(g[0]['name'])
                            cv = const_of(sd[1]) if sd and isinstance(sd[1], dict) else None
                            if isinstance(cv, int):
                                c2 = const_of(g[2])
                                if not {'==': cv == c2, '!=': cv != c2, '<': cv < c2, '<=': cv <= c2, '>': cv > c2, '>=': cv >= c2}.get(g[1], True):
                                    dead = True
                    if dead:
                        continue
                    R.ob(rule, s.ev.get('op') == '|=', s, '%s adds bits to the word it touches (store operator %s)' % (f.name, s.ev.get('op')), key='bitset-adds:%s' % f.name)
    bitset_domains(P, R, rule)


def bitset_domains(P, R, rule):
    """A set operation combines sets over one enumeration: every operand written `X.bits` belongs to the same set
    type as the destination (the word count is taken from the destination alone, so a foreign set is combined bit
    for bit under the wrong names)."""
    n = 0
    for f in P.fns.values():
        for s in f.calls():
            if s.ev.get('callee') not in ('bitset_or', 'bitset_and', 'bitset_andnot', 'bitset_h_andnot', 'memcpy'):
                continue
            recs = []
            for a in s.ev['args'][:3]:
                if isinstance(a, dict) and a.get('k') == 'mem' and a.get('field') == 'bits' and a.get('rec'):
                    recs.append(a['rec'])
            if len(recs) < 2:
                continue
            n += 1
            R.ob(rule, len(set(recs)) == 1, s, 'the operands of %s are sets of one type (%s)' % (s.ev.get('macro') or s.ev['callee'], ', '.join(sorted(set(recs)))),
                 key='bitset-domain:%s' % f.name)
    R.floor(rule, 3, 'set operations over typed bit sets')


def loops_of(fn):
    """(head block, body blocks) of every loop whose head has a conditional terminator: body = blocks on a cycle through
    the head entered by its true edge."""
    out = []
    for b in fn.reachable_blocks():
        c = fn.term_cond(b)
        if c is None:
            continue
        for e in fn.out[b]:
            if e.label != 'true':
                continue
            body = {x for x in fn.reach([e.dst], cut_blocks={b}) if b in fn.reach([x])}
            if body:
                out.append((b, body))
    return out


def full_traversal(P, R, rule, fn, is_iter_cond, what, error_returns=False):
    """A loop that is meant to visit every element of a container is left only when the container is exhausted: no
    edge leaves its body except through the loop head (an early `break` / `return` on a skippable element silently
    drops every element behind it).  is_iter_cond(cond) selects the loop by its head condition."""
    n = 0
    for head, body in loops_of(fn):
        c = fn.term_cond(head)
        if not is_iter_cond(c):
            continue
        # outermost only: skip loops nested in another selected loop
        exits = []
        for x in body:
            for e in fn.out[x]:
                if e.dst not in body and e.dst != head:
                    if error_returns:
                        # leaving with a failure result (a non-zero / computed return value) is not "stopping early"
                        ss = fn.block_sites(e.dst)
                        if ss and ss[-1].ev['k'] == 'ret' and ss[-1].ev.get('val') is not None and const_of(ss[-1].ev['val']) != 0 and all(t.ev['k'] == 'ret' for t in ss):
                            continue
                        # the same inside a helper that was folded into fn: its `return res;` is a store into its result variable
                        if ss and all(t.ev['k'] == 'store' and is_var(t.ev.get('lhs')) and t.ev['lhs']['name'].startswith('__ret@') and const_of(t.ev.get('rhs')) != 0 for t in ss):
                            continue
                    exits.append(e)
        n += 1
        loc = (fn.blocks[head].get('term') or {}).get('loc')
        R.ob(rule, not exits, P.relloc(loc) if loc else fn, '%s: the loop is left only when every element has been visited%s' % (what, (' (early exit: %s)' % exits[0].describe()) if exits else ''),
             key='full-traversal:%s' % fn.name)
    return n


def vector_walks(P, R, rule, units=None):
    """A loop that runs an index up to one vector's element count subscripts that vector: inside `for (i = ..; i <
    A.used; ..)` every `B.vec[i]` has B = A.  (Walking one vector by another's count reads beyond it, or stops short.)
    Loops whose head compares with several counts, or that subscript with something other than the loop index, are
    not judged."""
    from .model import rel as _rel
    n = 0
    for f in P.fns.values():
        if f.unit.startswith('tests/') or (units and f.unit not in units):
            continue
        for head, body in loops_of(f):
            c = f.term_cond(head)
            r = _rel(c, True) if c is not None else None
            if not (r and is_var(r[0]) and r[1] == '<' and isinstance(r[2], dict) and r[2].get('k') == 'mem' and r[2].get('field') == 'used'):
                continue
            iv, owner = r[0]['name'], sx(r[2].get('base'))
            subs = []
            for x in body:
                for t in f.block_sites(x):
                    for ex in event_exprs(t.ev):
                        for y in walk(ex):
                            if y.get('k') == 'idx' and is_var(y.get('index'), iv) and isinstance(y.get('base'), dict) and y['base'].get('k') == 'mem' and y['base'].get('field') == 'vec':
                                subs.append((t, y))
                c2 = f.term_cond(x)
                for y in walk(c2) if c2 is not None else ():
                    if y.get('k') == 'idx' and is_var(y.get('index'), iv) and isinstance(y.get('base'), dict) and y['base'].get('k') == 'mem' and y['base'].get('field') == 'vec':
                        subs.append((x, y))
            if not subs:
                continue
            # the index must not be re-based inside the body (nested walks use their own index)
            # other vectors the index is bounded by where the subscript stands (compound loop conditions), and vectors
            # whose count was copied from / to this one in the function
            same_len = {owner}
            for t in f.stores():
                ev = t.ev
                if ev['k'] == 'store' and ev.get('op') == '=' and isinstance(ev.get('lhs'), dict) and ev['lhs'].get('k') == 'mem' and ev['lhs'].get('field') == 'used' \
                        and isinstance(ev.get('rhs'), dict) and ev['rhs'].get('k') == 'mem' and ev['rhs'].get('field') == 'used':
                    a, b = sx(ev['lhs'].get('base')), sx(ev['rhs'].get('base'))
                    if a in same_len or b in same_len:
                        same_len |= {a, b}

            def bounded_by(t):
                bid = t.bid if hasattr(t, 'bid') else (t if isinstance(t, int) else None)
                out = set()
                if bid is None:
                    return out
                for g in f.guards(bid):
                    if is_var(g[0], iv) and g[1] == '<' and isinstance(g[2], dict) and g[2].get('k') == 'mem' and g[2].get('field') == 'used':
                        out.add(sx(g[2].get('base')))
                return out
            bad = [(t, y) for t, y in subs if sx(y['base'].get('base')) not in same_len and sx(y['base'].get('base')) not in bounded_by(t)]
            n += 1
            loc = (f.blocks[head].get('term') or {}).get('loc')
            R.ob(rule, not bad, bad[0][0] if bad and hasattr(bad[0][0], 'loc') else (P.relloc(loc) if loc else f),
                 'in %s the loop over %s.used subscripts %s.vec with its index%s' % (f.name, owner, owner, (' (also %s)' % ', '.join(sorted({sx(y) for _, y in bad}))) if bad else ''),
                 key='vector-walk:%s:%s' % (f.name, owner))
    return n


def no_static_locals(P, R, rule, fns, what):
    """Functions whose result must depend on their arguments (and the objects reachable from them) alone keep no state
    of their own between calls: they declare no non-const static local.  (A scratch value made static survives the
    call, an error exit, the previous client or the previous reload.)"""
    n = 0
    for f in fns:
        bad = [s for s in f.sites() if s.ev['k'] == 'decl' and s.ev.get('static') and not (s.ev.get('t', '').startswith('const ') or ' const' in s.ev.get('t', ''))]
        n += 1
        R.ob(rule, not bad, bad[0] if bad else f, '%s: %s keeps no state between calls (no non-const static local%s)' % (what, f.name, (': ' + ', '.join(t.ev.get('var') for t in bad)) if bad else ''),
             key='no-static:%s' % f.name)
    return n


def _expr_type(e):
    if not isinstance(e, dict):
        return None
    if e.get('castto'):
        return e['castto']
    k = e.get('k')
    if k in ('var', 'mem'):
        return e.get('t')
    if k in ('bin', 'callref'):
        return e.get('ty')
    if k in ('idx', 'un'):
        return e.get('ty') or e.get('t')
    if k == 'cond':
        return _expr_type(e.get('t')) or _expr_type(e.get('f'))
    return None


# stores into record members that narrow on purpose: (function, member) -> reason.  Confirmed by reading; frozen.
NARROW_OK = {
    ('parse_new_client', 'remote_port'): 'a TCP port is 16 bits by protocol',
    ('parse_new_client', 'local_port'): 'a TCP port is 16 bits by protocol',
    ('char_vector_append_string', 'used'): 'length of an in-memory string',
    ('char_vector_append_vprintf', 'used'): 'length just formatted into the vector',
    ('conf_parse_string', 'size'): 'length of a token inside the file buffer',
    ('conf_parse_string', 'used'): 'length of a token inside the file buffer',
    ('conf_parse_string', 'vec'): 'a byte assembled from two hex nibbles',
}


def narrowing_fields(P, R, rule, units):
    """What is kept in a record member fits the member: a store whose value has a wider (or differently signed) type
    than the member - an int id into a short, `1u << slot` into a 16-bit mask, a pass number into a 2-bit field - is
    accepted only if the numeric analysis bounds the value inside the member's range, or the store is one of the
    frozen, reasoned truncations.  Members are where state outlives the statement; a narrowed member silently aliases
    distinct clients, slots or passes."""
    from . import numeric
    n = 0
    for f in P.fns.values():
        if f.unit not in units:
            continue
        an = None
        for s in f.stores():
            ev = s.ev
            if ev['k'] != 'store' or ev.get('op') not in ('=', '|=', '+=', '&=', '-=', '^='):
                continue
            lhs = ev['lhs']
            mem = lhs if lhs.get('k') == 'mem' else (lhs.get('base') if lhs.get('k') == 'idx' and isinstance(lhs.get('base'), dict) and lhs['base'].get('k') == 'mem' else None)
            if mem is None:
                continue
            lt = lhs.get('t') if lhs.get('k') == 'mem' else (lhs.get('t') or lhs.get('ty'))
            fd = P.record_field(mem.get('rec'), mem.get('field')) or {}
            if lhs.get('k') == 'mem' and fd.get('bitfield') and fd.get('bitwidth'):
                lr0 = numeric.type_range(lt or '')
                w = fd['bitwidth']
                # an enum bit-field holds its enumerators when it is wide enough for the largest one
                lr = (0, (1 << w) - 1) if (not lr0 or lr0[0] >= 0 or (lt or '').startswith('enum ')) else (-(1 << (w - 1)), (1 << (w - 1)) - 1)
            else:
                lr = numeric.type_range(lt or '')
            rhs = ev.get('rhs')
            if not lr or not isinstance(rhs, dict) or rhs.get('castto'):
                continue
            c = const_of(rhs)
            if isinstance(c, int):
                if not (lr[0] <= c <= lr[1]) and not (c < 0 and lr[0] >= 0):
                    n += 1
                    R.ob(rule, False, s, 'the constant %s stored into %s does not fit its type %s' % (c, sx(lhs), lt), key='narrow:%s:%s' % (f.name, mem.get('field')))
                continue
            rt = _expr_type(rhs) or ''
            rr = numeric.type_range(rt)
            if rt.startswith('enum ') and (lt or '').startswith('enum '):
                # enum to enum of the same type: the enumerators must fit (bit-field)
                vals = [c2['v'] for c2 in P.enums.get(rt[5:].strip(), [])]
                if rt == lt and vals and lr[0] <= min(vals) and max(vals) <= lr[1]:
                    continue
            if not rr or (rr[0] >= lr[0] and rr[1] <= lr[1]):
                continue
            lo = hi = None
            try:
                an = an or numeric.Analysis(f)
                lo, hi = an.range_of(rhs, an.at(s))
            except Exception:
                pass
            if lo is not None and lo >= lr[0] and hi <= lr[1]:
                continue
            why = NARROW_OK.get((f.name, mem.get('field')))
            n += 1
            R.ob(rule, bool(why), s, 'the value stored into %s (type %s) fits it: the expression has type %s%s' % (sx(lhs), lt, _expr_type(rhs), (' - accepted: ' + why) if why else ''),
                 key='narrow:%s:%s' % (f.name, mem.get('field')), nontrivial=not why)
    R.ob(rule, True, None, 'scanned the member stores of %s for narrowing conversions' % ', '.join(sorted(units)), key='narrow-scan', nontrivial=False)
    return n


def counter_widths(P, R, rule, recs=None):
    """Members that are stepped with ++ / -- count live objects or events (references, holds, elements, hits): each is
    at least as wide as int, like every other counter of the code base - a narrower one wraps to "unreferenced" or
    "empty" while objects are still live."""
    from . import numeric
    seen = {}
    for f in P.fns.values():
        if f.unit.startswith('tests/'):
            continue
        for s in f.sites():
            for ex in event_exprs(s.ev) + ([s.ev.get('lhs')] if s.ev['k'] == 'store' and s.ev.get('op') in ('++', '--') else []):
                for x in walk(ex):
                    m = None
                    if x is s.ev.get('lhs') and x.get('k') == 'mem' and s.ev['k'] == 'store' and s.ev.get('op') in ('++', '--'):
                        m = x
                    if x.get('k') == 'un' and x.get('op') in ('++', '--') and isinstance(x.get('e'), dict) and x['e'].get('k') == 'mem':
                        m = x['e']
                    if m is not None and numeric.type_range(m.get('t') or ''):
                        seen.setdefault((m.get('rec'), m.get('field')), (m.get('t'), s))
    n = 0
    for (rec, fld), (t, s) in sorted(seen.items(), key=str):
        if recs and rec not in recs:
            continue
        fd = P.record_field(rec, fld) or {}
        tr = numeric.type_range(t)
        wide = tr[1] >= 2 ** 31 - 1 and not fd.get('bitfield')
        n += 1
        R.ob(rule, wide, s, 'counter %s.%s is kept in %s%s: at least the range of int' % (rec or '<anonymous>', fld, t, (' : %s' % fd.get('bitfield')) if fd.get('bitfield') else ''), key='counter-width:%s.%s' % (rec, fld))
    return n


NARROW_LOCAL_OK = {
    ('irc_pton', 'pos'): 'an offset inside the input text (the helper returned an offset inside its argument)',
}


def narrowing_locals(P, R, rule, fns):
    """In value-computing code (the address parser and mask test) a local that accumulates or carries a number is as wide
    as the expression assigned to it: an assignment that loses high-order bits - a prefix length built in an unsigned
    char and tested against its limit only afterwards - is accepted only when the numeric analysis bounds the value
    inside the local's range, or it is one of the frozen, reasoned cases."""
    from . import numeric

    def bits_of(tr):
        return max(abs(tr[0]), abs(tr[1]) + 1).bit_length()
    n = 0
    for f in fns:
        an = None
        for s in f.sites():
            ev = s.ev
            if ev['k'] == 'store' and is_var(ev.get('lhs')) and ev['lhs'].get('sc') in ('local', 'param') and ev.get('op') in ('=', '+=', '|=', '-=', '*='):
                name, lt, rhs = ev['lhs']['name'], ev['lhs'].get('t'), ev.get('rhs')
            elif ev['k'] == 'decl' and ev.get('init') is not None:
                name, lt, rhs = ev.get('var'), ev.get('t'), ev['init']
            else:
                continue
            lr = numeric.type_range(lt or '')
            if not lr or not isinstance(rhs, dict) or rhs.get('castto') or isinstance(const_of(rhs), int):
                continue
            rr = numeric.type_range(_expr_type(rhs) or '')
            if not rr or bits_of(rr) <= bits_of(lr):
                continue
            lo = hi = None
            try:
                an = an or numeric.Analysis(f)
                lo, hi = an.range_of(rhs, an.at(s))
            except Exception:
                pass
            if lo is not None and lo >= lr[0] and hi <= lr[1]:
                continue
            why = NARROW_LOCAL_OK.get((f.name, name.split('#')[0]))
            n += 1
            R.ob(rule, bool(why), s, 'in %s the value assigned to %s (%s) fits it: the expression has type %s, inferred range [%s, %s]%s' % (f.name, name, lt, _expr_type(rhs), lo, hi, (' - accepted: ' + why) if why else ''),
                 key='narrow-local:%s:%s' % (f.name, name.split('#')[0]), nontrivial=not why)
    R.ob(rule, True, None, 'scanned the local assignments of %s for narrowing conversions' % ', '.join(f.name for f in fns), key='narrow-local-scan', nontrivial=False)
    return n


def freed_elements_cut(P, R, rule, units):
    """Elements of a vector that have been freed are cut off: behind `free(X.vec[i])` every path to the function's exit
    stores a new element count into X.used (or frees the array itself).  Without it the vector keeps pointers to freed
    strings: the next append lands behind them and the next clear frees them again."""
    n = 0
    for f in P.fns.values():
        if f.unit not in units:
            continue
        for s in f.calls():
            if s.ev.get('callee') not in ('xfree', 'free') or not s.ev['args']:
                continue
            a = s.ev['args'][0]
            if not (isinstance(a, dict) and a.get('k') == 'idx' and isinstance(a.get('base'), dict) and a['base'].get('k') == 'mem' and a['base'].get('field') == 'vec'):
                continue
            owner = sx(a['base'].get('base'))

            def cuts(t, owner=owner):
                ev = t.ev
                if ev['k'] == 'store' and (ev.get('lhs') or {}).get('k') == 'mem' and ev['lhs'].get('field') == 'used' and sx(ev['lhs'].get('base')) == owner and ev.get('op') == '=':
                    return True
                if ev['k'] == 'call' and ev.get('callee') in ('xfree', 'free') and ev['args'] and sx(ev['args'][0]) == '%s%svec' % (owner, '->' if a['base'].get('arrow') else '.'):
                    return True
                if ev['k'] == 'call' and ev.get('callee') == 'memset' and ev['args'] and owner in sx(ev['args'][0]) and 'vec' not in sx(ev['args'][0]):
                    return True
                # the vector's own clear / wipe resets the count
                if ev['k'] == 'call' and (ev.get('callee') or '').endswith(('_clear', '_wipe')) and ev['args'] and sx(ev['args'][0]).lstrip('&') == owner:
                    return True
                return False
            n += 1
            R.ob(rule, f.path_avoiding(s, cuts) is None, s, 'in %s the elements of %s freed here are cut off (a new count is stored) before the function returns' % (f.name, owner), key='freed-cut:%s' % f.name)
    return n


def iterate_while_removing(P, R, rule, units):
    """A walk over a container whose body may dispose the current element reads that element's links BEFORE the body
    runs: behind a call that may remove the element the iterator points at (it is handed the element: `it + 1`,
    set_node_data(it)), the iterator itself is not dereferenced again in that iteration - the successor was saved in
    another variable first."""
    # functions that may remove an element from a container: call set_remove (transitively, within the unit)
    removers = set()
    changed = True
    while changed:
        changed = False
        for f in P.fns.values():
            if f.key in removers or f.unit.startswith('tests/'):
                continue
            for s in f.calls():
                c = s.ev.get('callee')
                if c in ('set_remove', 'set_dispose_node') or any(t.key in removers for t in P.callees(s, False)):
                    removers.add(f.key)
                    changed = True
                    break
    n = 0
    # reasoned exception: the merge function handed (target, source) with a source updates the target in place - its
    # "different kind" replacement branch cannot be taken from the merge loop, because the container's comparator
    # orders by (name, kind), so elements that compare equal have the same kind.  Premise re-checked on every run.
    cmpf = P.fn('conf_object_cmp')
    premise = cmpf is not None and any(x.get('k') == 'mem' and x.get('field') == 'type' for s in cmpf.sites() for ex in event_exprs(s.ev) for x in walk(ex))
    R.exception(rule, 'conf_replace_value(target, source != NULL) treated as not disposing its target', 'elements matched by the (name, kind) comparator have the same kind, so the replace-by-kind branch is unreachable from the merge', premise)
    done = set()
    for f in P.fns.values():
        if f.unit not in units:
            continue
        its = {x['name'] for s in f.sites() for ex in event_exprs(s.ev) for x in walk(ex) if x.get('k') == 'var' and x.get('t', '').replace('const ', '').startswith('struct set_node *') and x.get('sc') == 'local'}
        for head, body in loops_of(f):
            for b in body:
                for s in f.block_sites(b):
                    if s.ev['k'] != 'call' or (s.key, head) in done:
                        continue
                    c = s.ev.get('callee')
                    if not (c in ('set_remove',) or any(t.key in removers for t in P.callees(s, False))):
                        continue
                    if c == 'conf_replace_value' and premise and len(s.ev['args']) > 1 and const_of(s.ev['args'][1]) != 0:
                        continue
                    # innermost loop only
                    if any(h2 != head and s.bid in b2 and b2 < body for h2, b2 in loops_of(f)):
                        continue
                    done.add((s.key, head))
                    cur = [v for v in its if any(is_var(x, v) for a in s.ev['args'] for x in walk(a))]
                    for v in cur:
                        # events behind the call inside this iteration (until the loop head) that dereference v
                        bad = []
                        seen = set()
                        work = [(s.bid, s.idx + 1)]
                        while work:
                            bb, i0 = work.pop()
                            if (bb, i0) in seen:
                                continue
                            seen.add((bb, i0))
                            stop = False
                            for t in f.block_sites(bb)[i0:]:
                                if t.ev['k'] == 'store' and is_var(t.ev.get('lhs'), v) and not any(is_var(x, v) for x in walk(t.ev.get('rhs'))):
                                    stop = True
                                    break
                                for ex in event_exprs(t.ev):
                                    if derefs_of(ex, v) or any(x.get('k') == 'callref' and x.get('callee') in ('set_next', 'set_prev') and any(is_var(a, v) for a in x.get('args', [])) for x in walk(ex)):
                                        bad.append(t)
                            if stop:
                                continue
                            for e in f.out[bb]:
                                if e.dst != head and e.dst in body:
                                    work.append((e.dst, 0))
                                elif e.dst == head:
                                    c2 = f.term_cond(head)
                                    if c2 is not None and any(x.get('k') == 'mem' and is_var(x.get('base'), v) for x in walk(c2)):
                                        bad.append(s)
                        n += 1
                        R.ob(rule, not bad, s, 'in %s the walk does not touch %s again after %s(...) may have disposed the element it points at%s' % (f.name, v, c or 'the call', (' (read at %s)' % bad[0].loc) if bad else ''),
                             key='iter-remove:%s:%s' % (f.name, v))
    return n


# a string parameter kept in a longer-lived object by design: (function, member) -> reason.  Confirmed by reading; frozen.
ESCAPE_OK = {
    ('module_constructor', 'owner'): 'the module name handed to a constructor lives as long as the module registry entry',
    ('conf_register_string', 'def_value'): 'registered defaults are string literals of the registering module (API contract)',
    ('conf_register_inaddr', 'def_hostname'): 'registered defaults are string literals of the registering module (API contract)',
    ('conf_register_inaddr', 'def_service'): 'registered defaults are string literals of the registering module (API contract)',
    ('conf_parse_get_child', 'name'): 'the caller hands over a freshly allocated name (ownership transfer; freed on the duplicate path)',
}


def param_string_escapes(P, R, rule, units):
    """A text passed in by the caller does not outlive the call inside a heap object unless it is copied: a `char *`
    parameter stored as it is into a member reached through a pointer (a registry entry keeps the caller's buffer: a
    parse buffer that is freed, a module image that is unmapped) is accepted only for the frozen, reasoned cases.
    Registries copy their keys (into the node's own tail, or with xstrdup)."""
    n = 0
    for f in P.fns.values():
        if f.unit not in units:
            continue
        ps = {p['name'] for p in f.param_info if 'char' in p.get('t', '') and '*' in p.get('t', '')}
        if not ps:
            continue
        for s in f.stores():
            ev = s.ev
            l = ev.get('lhs') or {}
            if not (ev['k'] == 'store' and ev.get('op') == '=' and l.get('k') == 'mem' and is_var(ev.get('rhs')) and ev['rhs']['name'] in ps):
                continue
            rv = root_var(l)
            if rv is None or not rv.get('t', '').endswith('*') and rv.get('sc') in ('local',):
                continue        # a stack record goes out of scope with the call
            why = ESCAPE_OK.get((f.name, l.get('field')))
            n += 1
            R.ob(rule, bool(why), s, '%s keeps its caller\'s text %s in %s only by a reasoned exception%s' % (f.name, ev['rhs']['name'], sx(l), (': ' + why) if why else ' (none: the text must be copied)'),
                 key='escape:%s:%s' % (f.name, l.get('field')), nontrivial=not why)
    R.ob(rule, True, None, 'scanned %s for caller-owned texts stored into heap objects' % ', '.join(sorted(units)), key='escape-scan', nontrivial=False)
    return n


def guard_says_nonempty(g, a):
    """Does the relation g (lhs, op, rhs), known to hold, say that the C string `a` has at least one character?
    Forms: a[0] != 0, *a != 0, a[0] == 'x', strlen(a) != 0 / > 0 / >= 1, strcmp(a, "") != 0."""
    from .model import sx as _sx, const_of as _c
    l, op, r = g[0], g[1], g[2]
    if not isinstance(l, dict):
        return False
    k = _c(r)
    first = (l.get('k') == 'idx' and _sx(l.get('base')) == _sx(a) and _c(l.get('index')) == 0) or \
            (l.get('k') == 'un' and l.get('op') == '*' and _sx(l.get('e')) == _sx(a))
    if first:
        return (op == '!=' and k == 0) or (op == '==' and isinstance(k, int) and k != 0) or (op == '>' and isinstance(k, int) and k >= 0)
    if l.get('k') == 'callref' and l.get('callee') in ('strlen', 'strnlen') and l.get('args') and _sx(l['args'][0]) == _sx(a):
        return (op == '!=' and k == 0) or (op == '>' and isinstance(k, int) and k >= 0) or (op == '>=' and isinstance(k, int) and k >= 1)
    if l.get('k') == 'callref' and l.get('callee') in ('strcmp', 'strcasecmp') and len(l.get('args') or ()) == 2:
        x, y = l['args']
        other = y if _sx(x) == _sx(a) else x if _sx(y) == _sx(a) else None
        if other is not None and other.get('k') == 'str' and other.get('v') == '':
            return op == '!=' and k == 0
    return False


VA_CONSUMERS = {'vsnprintf', 'vsprintf', 'vfprintf', 'vprintf', 'vasprintf', 'vdprintf', 'vsyslog', 'vsscanf', 'vfscanf', 'vscanf', '__vsnprintf_chk', '__vfprintf_chk', '__vsprintf_chk', '__vprintf_chk', '__vasprintf_chk'}


def va_list_once(P, R, rule, what='variable argument lists'):
    """A va_list that a consumer (the v*printf family, or a function of ours that hands it to one) has walked is
    indeterminate: it may not be walked, copied or passed on again - whoever needs the arguments twice takes a va_copy
    BEFORE the first use.  Forward typestate per function over its va_list variables (fresh / spent); our own functions
    are summarised by whether they spend their va_list parameter (one that only va_copy's it does not)."""
    def is_va(t):
        return 'va_list' in (t or '')
    fns = [f for f in P.fns.values() if not f.unit.startswith('tests/')]
    spends = {}      # (fn key, param index) -> bool
    changed = True
    cand = {}
    for f in fns:
        for i, p_ in enumerate(f.param_info):
            if is_va(p_.get('t')):
                cand[(f.key, i)] = (f, p_['name'])
                spends[(f.key, i)] = False
    def call_spends(f, s, v):
        """does call site s spend variable v?"""
        c = s.ev.get('callee')
        idx = [i for i, a in enumerate(s.ev['args']) if is_var(a, v)]
        if not idx:
            return False
        if c in ('__builtin_va_copy', '__builtin_va_start', '__builtin_va_end', 'va_copy', 'va_start', 'va_end'):
            return False
        if c in VA_CONSUMERS:
            return True
        ts = P.callees(s, True)
        if not ts:
            return True        # unknown external taking a va_list: assume it walks it
        return any(spends.get((t.key, i), False) for t in ts for i in idx)
    while changed:
        changed = False
        for (k, i), (f, v) in cand.items():
            if spends[(k, i)]:
                continue
            if any(call_spends(f, s, v) for s in f.calls()):
                spends[(k, i)] = True
                changed = True
    n = 0
    for f in fns:
        vs = {p_['name'] for p_ in f.param_info if is_va(p_.get('t'))}
        for s in f.sites():
            if s.ev['k'] == 'decl' and is_va(s.ev.get('t')):
                vs.add(s.ev['var'])
        if not vs:
            continue
        for v in sorted(vs):
            def on_event(st, s, v=v):
                if s.ev['k'] != 'call':
                    return st
                c = s.ev.get('callee')
                a = s.ev['args']
                if c in ('__builtin_va_start', 'va_start') and a and is_var(a[0], v):
                    return 'fresh'
                if c in ('__builtin_va_copy', 'va_copy') and a and is_var(a[0], v):
                    return 'fresh'
                if call_spends(f, s, v):
                    return 'spent'
                return st
            before, _, _, _ = f.forward('fresh' if v in f.params else 'none', on_event)
            for s in f.calls():
                if not any(is_var(a, v) for a in s.ev['args']):
                    continue
                c = s.ev.get('callee')
                if c in ('__builtin_va_end', 'va_end') or (c in ('__builtin_va_start', 'va_start', '__builtin_va_copy', 'va_copy') and is_var(s.ev['args'][0], v)):
                    continue
                sts = before.get(s.key, set())
                n += 1
                R.ob(rule, 'spent' not in sts, s, '%s: the argument list %s handed to %s has not been walked before on any path (states: %s)' % (f.name, v, c or 'a callback', sorted(sts)), key='va:%s:%s:%s' % (f.name, v, c))
    R.floor(rule, 4, what)


def linform(e):
    """e as a linear form over opaque atoms: ({atom text: coefficient}, constant), or None.  Casts are transparent."""
    from .model import sx as _sx, const_of as _c
    while isinstance(e, dict) and e.get('k') in ('cast', 'paren'):
        e = e.get('e')
    if not isinstance(e, dict):
        return None
    c = _c(e)
    if isinstance(c, int):
        return ({}, c)
    if e.get('k') == 'bin' and e.get('op') in ('+', '-'):
        a, b = linform(e.get('l')), linform(e.get('r'))
        if a is None or b is None:
            return None
        sgn = 1 if e['op'] == '+' else -1
        t = dict(a[0])
        for k, v in b[0].items():
            t[k] = t.get(k, 0) + sgn * v
        return ({k: v for k, v in t.items() if v}, a[1] + sgn * b[1])
    if e.get('k') == 'un' and e.get('op') == '-':
        a = linform(e.get('e'))
        return None if a is None else ({k: -v for k, v in a[0].items()}, -a[1])
    return ({_sx(e): 1}, 0)


def snprintf_fit(P, R, rule, fns, what='tests of a formatted length against its buffer'):
    """(v)snprintf returns the length the text NEEDS; it fitted only if that is strictly less than the size it was given
    (C99).  Wherever the result is compared with that size - in whatever arrangement of the terms - the comparison puts
    "equal" on the did-not-fit side: writing x for result - size, the test separates x <= -1 from x >= 0."""
    n = 0
    for f in fns:
        for s in f.sites():
            calls = []
            for ex in event_exprs(s.ev):
                calls += [x for x in walk(ex) if x.get('k') == 'callref' and x.get('callee') in ('vsnprintf', 'snprintf', '__vsnprintf_chk', '__snprintf_chk')]
            if s.ev['k'] == 'call' and s.ev.get('callee') in ('vsnprintf', 'snprintf'):
                calls.append(s.ev)
            for c in calls:
                size = linform(c['args'][1])
                if size is None or not size[0]:
                    continue        # a constant size: compared with sizeof, judged where the caller does it
                # the variable the result lands in
                res = None
                if s.ev['k'] == 'store' and is_var(s.ev.get('lhs')) and s.ev.get('op') == '=':
                    res = s.ev['lhs']['name']
                elif s.ev['k'] == 'decl':
                    res = s.ev.get('var')
                if res is None:
                    continue
                for bid in f.reachable_blocks():
                    for e in f.out[bid]:
                        r = edge_rel(e)
                        if not r or r[1] not in ('<', '<=', '>', '>='):
                            continue
                        a, b = linform(r[0]), linform(r[2])
                        if a is None or b is None:
                            continue
                        d = dict(a[0])
                        for k, v in b[0].items():
                            d[k] = d.get(k, 0) - v
                        d = {k: v for k, v in d.items() if v}
                        cst = a[1] - b[1]
                        if res not in d or abs(d[res]) != 1:
                            continue
                        sg = d[res]
                        # d*sg - res must equal -size
                        rest = {k: v * sg for k, v in d.items() if k != res}
                        if rest != {k: -v for k, v in size[0].items()}:
                            continue
                        cst = cst * sg - (-size[1])
                        op = r[1] if sg == 1 else {'<': '>', '<=': '>=', '>': '<', '>=': '<='}[r[1]]
                        # x + cst op 0, x = result - size
                        thr = {'<': -cst - 1, '<=': -cst, '>': -cst, '>=': -cst - 1}[op]      # the test separates x <= thr from x > thr
                        n += 1
                        R.ob(rule, thr == -1, e.src if False else f.blocks[e.src].get('term', {}).get('loc') and P.relloc(f.blocks[e.src]['term']['loc']) or f,
                             'in %s the length %s returned by %s is compared with the size it was given so that "equal" counts as too long (the test separates result - size <= %d from the rest; -1 is right)' % (f.name, res, c['callee'], thr),
                             key='fit:%s:%s' % (f.name, res))
                        R.obligations[-1]['function'] = f.name
    R.floor(rule, 1, what)


def vector_growth(P, R, rule, what='capacity updates of the vector templates'):
    """The vector templates (DEFINE_VECTOR) make room by replacing the capacity with a larger one - in `_append` when the
    vector is full, in `_reserve` in a loop until the request fits.  Every such update yields a capacity strictly
    greater than the old one for EVERY old capacity, the smallest included (capacity 1: `size + (size >> 1)` is still
    1 - the append then writes one element past the block, and the reserve loop never ends).  Decided on the update
    expression itself: built from the old capacity with +, *, << and >> by constants (no subtraction), new - old does
    not decrease as the capacity grows, so it is enough that it is positive for the smallest non-zero capacity."""
    def ev_(e, env):
        while isinstance(e, dict) and e.get('k') in ('cast', 'paren'):
            e = e.get('e')
        if not isinstance(e, dict):
            return None
        c = const_of(e)
        if isinstance(c, int):
            return c
        t = sx(e)
        if t in env:
            return env[t]
        if e.get('k') == 'bin' and e.get('op') in ('+', '*', '<<', '>>'):
            a, b = ev_(e.get('l'), env), ev_(e.get('r'), env)
            if a is None or b is None:
                return None
            return {'+': a + b, '*': a * b, '<<': a << b if 0 <= b < 64 else None, '>>': a >> b if 0 <= b < 64 else None}[e['op']]
        if e.get('k') == 'cond':
            cv = ev_(e.get('c'), env)
            if cv is None:
                return None
            return ev_(e.get('t') if cv else e.get('f'), env)
        return None
    n = 0
    for f in P.fns.values():
        if f.unit.startswith('tests/'):
            continue
        for s in f.stores():
            ev = s.ev
            lhs = ev.get('lhs') or {}
            if not (ev['k'] == 'store' and lhs.get('k') == 'mem' and lhs.get('field') == 'size'):
                continue
            rec = P.records.get(lhs.get('rec')) or {}
            if not {'used', 'size', 'vec'} <= {fd['name'] for fd in rec.get('fields', ())}:
                continue
            old = sx(lhs)
            rhs = ev.get('rhs')
            op = ev.get('op')
            if op in ('<<=', '*=', '+='):
                rhs = {'k': 'bin', 'op': op[:-1], 'l': lhs, 'r': rhs}
            elif op != '=':
                continue
            if not isinstance(rhs, dict) or not any(sx(x) == old for x in walk(rhs)):
                continue         # an absolute value (0, a requested length): not a growth step
            n += 1
            g1 = ev_(rhs, {old: 1})
            g0 = ev_(rhs, {old: 0})
            in_loop = s.bid in f.reach([e.dst for e in f.out[s.bid]])
            if g1 is None:
                R.broke('%s: the capacity update %s at %s is not built from +, *, << and >> by constants' % (rule, sx(rhs), s.loc))
                continue
            # capacity 0 is excluded where a guard says so (`if (size == 0) size = len; else while ...`)
            zero_excluded = any(isinstance(g[0], dict) and sx(g[0]) == old and ((g[1] == '!=' and const_of(g[2]) == 0) or (g[1] == '>' and const_of(g[2]) == 0)) for g in f.guards(s.bid))
            ok = g1 > 1 and (zero_excluded or (g0 is not None and g0 > 0))
            R.ob(rule, ok, s, 'in %s the new capacity %s exceeds the old one for every old capacity (old 1 -> %s%s)' % (f.name, sx(rhs), g1, '' if zero_excluded else ', old 0 -> %s' % g0), key='grow:%s' % f.name.split('_')[-1])
    R.floor(rule, 2, what)


_CONV = None


def fmt_args_agree(P, R, rule, targets, what='conversions of the program\'s own formatted senders'):
    """The compiler checks printf-like calls only where the callee is declared so; the daemon's own senders
    (iauth_send, iauth_report_config, iauth_report_stats take a format and pass it to vsnprintf) are not.  For every
    call of one of them with a literal format, each conversion gets an argument of its kind and width: `%lu` an
    unsigned long (not an unsigned int left in half a register), `%s` a character pointer, `%d` an int, `*` an int.
    targets: {function name: index of the format argument}."""
    import re
    global _CONV
    if _CONV is None:
        _CONV = re.compile(r'%([-+ #0]*)(\*|\d+)?(?:\.(\*|\d+))?(hh|h|ll|l|z|j|t|L)?([diouxXcspneEfFgGaA%])')
    W64 = ('long', 'unsigned long', 'size_t', 'ssize_t', 'time_t', '__time_t', 'off_t', '__off_t', 'uint64_t', 'int64_t', 'intmax_t', 'uintmax_t', 'ptrdiff_t', 'long long', 'unsigned long long', '__suseconds_t', 'suseconds_t')
    W32 = ('int', 'unsigned int', 'unsigned', 'uint32_t', 'int32_t', 'short', 'unsigned short', 'char', 'unsigned char', 'uint16_t', 'uint8_t', 'int16_t', 'int8_t', 'signed char', '_Bool')

    def kind(a):
        if not isinstance(a, dict):
            return None
        if a.get('k') == 'str':
            return 'ptr'
        if a.get('k') == 'int':
            return 'i32'
        if a.get('k') == 'enum':
            return 'i32'
        if a.get('k') == 'cond':
            kt, kf = kind(a.get('t')), kind(a.get('f'))
            return kt if kt == kf else (kt or kf if None in (kt, kf) else None)
        if a.get('k') == 'cast':
            t = (a.get('t') or a.get('ty') or '')
            if not isinstance(t, str) or not t:
                return kind(a.get('e'))
        t = a.get('ty') or a.get('t') or ''
        if not isinstance(t, str):
            return None
        t = t.replace('const ', '').strip()
        if '*' in t or '[' in t:
            return 'ptr'
        if t in ('double', 'float', 'long double'):
            return 'f64'
        if t in W64:
            return 'i64'
        if t in W32 or t.startswith('enum '):
            return 'i32'
        return None
    n = 0
    for f in P.fns.values():
        if f.unit.startswith('tests/'):
            continue
        for s in f.calls():
            c = s.ev.get('callee')
            if c not in targets:
                continue
            fi = targets[c]
            a = s.ev['args']
            if fi >= len(a) or a[fi].get('k') != 'str':
                continue
            fmt = a[fi]['v']
            k = fi + 1
            for m in _CONV.finditer(fmt):
                flags, width, prec, ln, cv = m.groups()
                if cv == '%':
                    continue
                for star in (width, prec):
                    if star == '*':
                        got = kind(a[k]) if k < len(a) else 'missing'
                        n += 1
                        R.ob(rule, got == 'i32', s, '%s: the `*` of %r gets an int (argument %s: %s)' % (c, m.group(0), k, got), key='fmt:%s:star' % c)
                        k += 1
                want = 'ptr' if cv in 'sp' else 'f64' if cv in 'eEfFgGaA' else ('i64' if ln in ('l', 'll', 'z', 'j', 't') else 'i32')
                got = kind(a[k]) if k < len(a) else 'missing'
                n += 1
                # a 32-bit integer handed to a 64-bit conversion is widened by the register it travels in on this ABI (the
                # first six integer arguments): not portable, but the text printed is right - noted, not reported
                widened = (want, got) == ('i64', 'i32') and k < 6
                R.ob(rule, got == want or widened or (got is None and k < len(a)), s, '%s: %r gets an argument of its kind and at least its width (argument %d is %s: %s, wanted %s%s)' % (
                    c, m.group(0), k, sx(a[k]) if k < len(a) else '-', got, want, '; widened in a register' if widened else ''), key='fmt:%s:%s' % (c, cv), nontrivial=(got is not None and not widened))
                k += 1
            n += 1
            R.ob(rule, k == len(a), s, '%s: %r has as many arguments as conversions (%d of %d used)' % (c, fmt[:40], k - fi - 1, len(a) - fi - 1), key='fmt:%s:count' % c)
    R.floor(rule, 5, what)
