"""TS-UAR: no use of a request after a call that may retire (free) it.

RET(f, i): f may retire the request passed as parameter i.  Base fact: a call
set_remove(<the request table>, p, ...) / set_clear of it; closed over direct calls and
function-pointer slots.  One reasoned exception (DESIGN.md 4.1) whose premises are
re-checked on every run."""
from .model import sx, walk, is_var, is_field, const_of, vars_in, root_var, on_path
from . import rules

REQ_T = 'struct iauth_request *'
TABLE = 'iauth_reqs'


def req_vars(fn):
    vs = set()
    for p in fn.param_info:
        if p['t'].replace('const ', '') == REQ_T:
            vs.add(p['name'])
    for s in fn.sites():
        if s.ev['k'] == 'decl' and s.ev.get('t', '').replace('const ', '') == REQ_T:
            vs.add(s.ev['var'])
    # locals declared without initialiser do not produce decl events: use expression types
    for s in fn.sites():
        for ex in rules.event_exprs(s.ev):
            for x in walk(ex):
                if x.get('k') == 'var' and x.get('t', '').replace('const ', '') == REQ_T and x.get('sc') in ('local', 'param'):
                    vs.add(x['name'])
    for b in fn.blocks.values():
        c = (b.get('term') or {}).get('cond')
        for x in walk(c):
            if x.get('k') == 'var' and x.get('t', '').replace('const ', '') == REQ_T and x.get('sc') in ('local', 'param'):
                vs.add(x['name'])
    return vs


def exception_premises(P):
    """Premises of the exception iauth_class_rule_check -> iauth_trust_username:
    (i) every write of auth_username is followed on all paths by setting GOT_IDENT on the
    same request; (ii) nothing ever clears GOT_IDENT; (iii) the guard of the call tests
    auth_username, and the nested re-evaluation in the callee is guarded by !GOT_IDENT."""
    ok = True
    why = []
    writers = []
    for f in P.fns.values():
        for s in f.sites():
            for lv in P.written_lvalues(s):
                if on_path(lv, 'auth_username'):
                    writers.append(s)
    def cond_value(f, c, guards):
        """truth of condition c given relations known to hold (the writer's dominating guards): True / False / None"""
        from .model import rel as _rel
        if not isinstance(c, dict):
            return None
        if c.get('k') == 'bin' and c.get('op') == '||':
            a, b = cond_value(f, c['l'], guards), cond_value(f, c['r'], guards)
            return True if (a is True or b is True) else (False if (a is False and b is False) else None)
        if c.get('k') == 'bin' and c.get('op') == '&&':
            a, b = cond_value(f, c['l'], guards), cond_value(f, c['r'], guards)
            return False if (a is False or b is False) else (True if (a is True and b is True) else None)
        rt, rf = _rel(c, True), _rel(c, False)
        for g in guards:
            if sx(g[0]) == sx(rt[0]) and sx(g[2]) == sx(rt[2]):
                if g[1] == rt[1]:
                    return True
                if g[1] == rf[1]:
                    return False
        return None

    for s in writers:
        wguards = s.fn.guards(s.bid)

        def sets_ident(t, s=s, wguards=wguards):
            if t.ev['k'] != 'bitset':
                return False
            if t.ev.get('bit') == 'IAUTH_GOT_IDENT':
                return True
            # the bit chosen into a local by `cond ? GOT_IDENT : other`: decided by what is known where the ident was stored
            be = t.ev.get('bitexpr')
            if isinstance(be, dict) and be.get('k') == 'var':
                d = s.fn.single_def(be['name'])
                v = d[1] if d else None
                if isinstance(v, dict) and v.get('k') == 'cond':
                    tv = cond_value(s.fn, v['c'], wguards)
                    pick = v['t'] if tv is True else v['f'] if tv is False else None
                    return isinstance(pick, dict) and pick.get('k') == 'enum' and pick.get('name') == 'IAUTH_GOT_IDENT'
            return False
        if s.fn.path_avoiding(s, sets_ident) is not None:
            ok = False
            why.append('write of auth_username at %s not followed by GOT_IDENT on all paths' % s.loc)
    if not writers:
        ok = False
        why.append('no writer of auth_username found')
    for f in P.fns.values():
        for s in f.sites():
            ev = s.ev
            if ev['k'] == 'bitclear' and ev.get('bit') == 'IAUTH_GOT_IDENT':
                ok = False
                why.append('GOT_IDENT cleared at %s' % s.loc)
            if ev['k'] == 'call' and ev.get('callee') in ('bitset_clear', 'bitset_and', 'bitset_andnot', 'memset') and ev['args']:
                a0 = ev['args'][0]
                if any(is_field(x, 'flags', 'iauth_request') for x in walk(a0)):
                    ok = False
                    why.append('request flags bulk-modified at %s' % s.loc)
    rc = P.fn('iauth_class_rule_check')
    tu = P.fn('iauth_trust_username')
    if rc is None or tu is None:
        return False, ['functions of the exception no longer exist']
    for s in rc.calls('iauth_trust_username'):
        g = [r for r in rc.guards(s.bid)]
        if not any(any(is_field(x, 'auth_username') for x in walk(r[0])) and r[1] == '==' and const_of(r[2]) == ord('~') for r in g):
            ok = False
            why.append('call at %s no longer guarded by auth_username[0] == \'~\'' % s.loc)
    for s in tu.calls('iauth_check_request'):
        g = tu.guards(s.bid)
        if not any(r[0].get('k') == 'bittest' and r[0].get('bit') == 'IAUTH_GOT_IDENT' and r[1] == '==' and const_of(r[2]) == 0 for r in g):
            ok = False
            why.append('re-evaluation in iauth_trust_username at %s not guarded by !GOT_IDENT' % s.loc)
    return ok, why


class Ret(object):
    def __init__(self, P, exceptions=()):
        self.P = P
        self.exc = set(exceptions)   # (caller name, callee name)
        self.ret = {}                # (fn key, i) -> witness string
        self._fix()

    def base(self, s):
        ev = s.ev
        if ev['k'] != 'call' or ev.get('callee') not in ('set_remove', 'set_clear'):
            return None
        if not ev['args'] or not is_var(ev['args'][0], TABLE):
            return None
        if ev['callee'] == 'set_remove' and len(ev['args']) > 1 and is_var(ev['args'][1]):
            return ev['args'][1]['name']
        return None

    def retiring_args(self, s):
        """Indices of arguments of call s that the callee may retire."""
        ev = s.ev
        out = set()
        if ev['k'] != 'call':
            return out
        for t in self.P.callees(s, True):
            if (s.fn.name, t.name) in self.exc:
                continue
            for j in range(len(ev['args'])):
                if (t.key, j) in self.ret:
                    out.add(j)
        return out

    def _fix(self):
        changed = True
        while changed:
            changed = False
            for f in self.P.fns.values():
                for s in f.sites():
                    v = self.base(s)
                    cands = []
                    if v is not None:
                        cands.append((v, 'set_remove(%s, %s) at %s' % (TABLE, v, s.loc)))
                    if s.ev['k'] == 'call':
                        for j in self.retiring_args(s):
                            a = s.ev['args'][j]
                            if is_var(a):
                                cands.append((a['name'], 'passes it to %s at %s' % (s.ev.get('callee') or self.P.call_slot(s), s.loc)))
                    for v, why in cands:
                        if v in f.params:
                            k = (f.key, f.params.index(v))
                            if k not in self.ret:
                                self.ret[k] = why
                                changed = True


def check(P, R, rule):
    prem_ok, why = exception_premises(P)
    exc = [('iauth_class_rule_check', 'iauth_trust_username')] if prem_ok else []
    R.exception(rule, 'iauth_class_rule_check -> iauth_trust_username treated as non-retiring',
                'the nested gate evaluation needs !GOT_IDENT while the call needs a non-empty ident, which implies GOT_IDENT',
                prem_ok)
    if not prem_ok:
        R.note('UAR exception void: ' + '; '.join(why))
    ret = Ret(P, exc)
    R.note('may-retire summaries: %d' % len(ret.ret))
    n_sites = 0
    from . import core as _core
    em = _core.emitters(P)
    for f in P.fns.values():
        vs = req_vars(f)
        if not vs:
            continue
        problems = {}
        # texts that NAME a request: the routing tag it was looked up by, a tag formatted from it, and any buffer
        # formatted from one of those.  After the request is retired they must not reach the server channel either.
        names = {}
        for t in f.sites():
            ev = t.ev
            if ev['k'] in ('store', 'decl'):
                rhs = ev.get('rhs') if ev['k'] == 'store' else ev.get('init')
                lv = ev['lhs']['name'] if ev['k'] == 'store' and is_var(ev.get('lhs')) else ev.get('var')
                if isinstance(rhs, dict) and rhs.get('k') == 'callref' and rhs.get('callee') in ('iauth_validate_request',) and lv in vs:
                    for a in rhs.get('args', []):
                        if is_var(a):
                            names.setdefault(a['name'], set()).add(lv)
            if ev['k'] == 'call' and ev.get('callee') == 'iauth_routing' and len(ev['args']) >= 2 and is_var(ev['args'][0]) and is_var(ev['args'][1]) and ev['args'][0]['name'] in vs:
                names.setdefault(ev['args'][1]['name'], set()).add(ev['args'][0]['name'])
        changed = True
        while changed:
            changed = False
            for t in f.calls():
                ev = t.ev
                if ev.get('callee') in ('snprintf', 'sprintf', 'strcpy', 'strlcpy', 'strncpy', 'strcat', 'strlcat') and ev['args'] and is_var(ev['args'][0]):
                    dst = ev['args'][0]['name']
                    for a in ev['args'][1:]:
                        for y in walk(a):
                            if is_var(y) and y['name'] in names and y['name'] != dst:
                                if not names[y['name']] <= names.get(dst, set()):
                                    names.setdefault(dst, set()).update(names[y['name']])
                                    changed = True

        def on_event(st, s, f=f, vs=vs, problems=problems):
            ev = s.ev
            retired = dict(st)
            # uses first (arguments are evaluated before the call retires anything)
            if retired:
                used = set()
                for ex in rules.event_exprs(ev):
                    for v in retired:
                        if rules.derefs_of(ex, v):
                            used.add(v)
                if ev['k'] == 'call':
                    for a in ev['args']:
                        if is_var(a) and a['name'] in retired:
                            used.add(a['name'])
                    # a text naming the retired request handed to something that may write to the server
                    if names and any(x.key in em for x in P.callees(s, True)):
                        for a in ev['args']:
                            for y in walk(a):
                                if is_var(y) and y['name'] in names:
                                    for v in names[y['name']] & set(retired):
                                        used.add(v)
                for v in used:
                    problems.setdefault(retired[v], []).append((s, v))
            if ev['k'] == 'store' and is_var(ev.get('lhs')) and ev['lhs']['name'] in retired:
                del retired[ev['lhs']['name']]
            if ev['k'] == 'call':
                for j in ret.retiring_args(s):
                    a = ev['args'][j]
                    if is_var(a) and a['name'] in vs:
                        retired[a['name']] = s.key
                v = ret.base(s)
                if v is not None and v in vs:
                    retired[v] = s.key
            return tuple(sorted(retired.items()))

        before, _, sin, bout = f.forward((), on_event, None)
        # uses in branch conditions
        for bid, sts in bout.items():
            c = f.term_cond(bid)
            if c is None:
                continue
            for st in sts:
                for v, k in st:
                    if rules.derefs_of(c, v):
                        problems.setdefault(k, []).append((None, v))
        for s in f.calls():
            retv = [s.ev['args'][j]['name'] for j in ret.retiring_args(s) if is_var(s.ev['args'][j]) and s.ev['args'][j]['name'] in vs]
            b = ret.base(s)
            if b is not None and b in vs:
                retv.append(b)
            if not retv:
                continue
            n_sites += 1
            bad = problems.get(s.key)
            callee = s.ev.get('callee') or P.call_slot(s)
            R.ob(rule, not bad, s, 'no use of %s after %s(...) may have retired it' % ('/'.join(sorted(set(retv))), callee),
                 key='after:%s' % callee,
                 detail=['%s used at %s' % (v, u.loc if u is not None else 'a branch condition') for u, v in bad] if bad else None)
    R.floor(rule, 10, 'call sites that may retire a request')
    return n_sites
