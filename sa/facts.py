"""Compile-command synthesis and fact extraction for one source tree.

The tree ships no compilation database and `make -n -B` re-runs configure, so the
commands are synthesised from the *_SOURCES lists of the Makefile fragments (new
units are therefore covered automatically).  One JSON fact file per unit.
"""
import json
import os
import re
import shutil
import subprocess
import tempfile
from concurrent.futures import ThreadPoolExecutor

HERE = os.path.dirname(os.path.abspath(__file__))
VERIF = os.path.dirname(HERE)
EXTRACTOR = os.path.join(VERIF, 'build', 'facts')
FALLBACK_INC = os.path.join(VERIF, 'tools', 'fallback')


class AnalysisBroken(Exception):
    """The tree cannot be analysed (exit status 2, never a verdict)."""


def ensure_extractor():
    src = os.path.join(VERIF, 'tools', 'extract', 'facts.cc')
    if (not os.path.exists(EXTRACTOR)
            or os.path.getmtime(src) > os.path.getmtime(EXTRACTOR)):
        r = subprocess.run(['sh', os.path.join(VERIF, 'tools', 'build.sh')],
                           stdout=subprocess.PIPE, stderr=subprocess.STDOUT)
        if r.returncode != 0:
            raise AnalysisBroken('cannot build the extractor: ' + r.stdout.decode()[-2000:])


def list_units(repo, with_tests=False):
    """C units named in the *_SOURCES lists of the Makefile fragments."""
    frags = ['src/Makefile.frag', 'modules/Makefile.frag']
    if with_tests:
        frags.append('tests/Makefile.frag')
    units = []
    for frag in frags:
        p = os.path.join(repo, frag)
        if not os.path.exists(p):
            raise AnalysisBroken('missing ' + frag)
        text = open(p).read().replace('\\\n', ' ')
        for m in re.finditer(r'^\s*\w+_SOURCES\s*\+?=\s*(.*)$', text, re.M):
            for tok in m.group(1).split():
                if tok.endswith('.c') and tok not in units:
                    units.append(tok)
    missing = [u for u in units if not os.path.exists(os.path.join(repo, u))]
    if missing:
        raise AnalysisBroken('units listed in Makefile fragments do not exist: %s' % missing)
    if len(units) < 10:
        raise AnalysisBroken('only %d units found in the Makefile fragments' % len(units))
    return units


def flags(repo, ndebug=False):
    fl = ['-DHAVE_CONFIG_H', '-I' + repo,
          '-DSYSCONFDIR="/usr/local/etc"', '-DMODULESDIR="/usr/local/lib/iauthd-c"',
          '-DLOGDIR="/usr/local/var/log"', '-std=gnu17', '-W', '-Wall',
          '-Wno-unused-parameter']
    if not os.path.exists(os.path.join(repo, 'autoconf.h')):
        fl.append('-I' + FALLBACK_INC)
    fl.append('-DNDEBUG' if ndebug else '-UNDEBUG')
    return fl


def extract(repo, with_tests=False, ndebug=False, outdir=None):
    """Run the extractor over every unit; returns (outdir, units).  The caller
    removes outdir (a fresh temp directory unless given)."""
    ensure_extractor()
    repo = os.path.abspath(repo)
    units = list_units(repo, with_tests)
    outdir = outdir or tempfile.mkdtemp(prefix='iauthd-facts-')
    db = [{'directory': repo, 'file': os.path.join(repo, u),
           'arguments': ['clang'] + flags(repo, ndebug) + ['-c', os.path.join(repo, u)]}
          for u in units]
    with open(os.path.join(outdir, 'compile_commands.json'), 'w') as f:
        json.dump(db, f)

    def one(u):
        out = os.path.join(outdir, u.replace('/', '_') + '.json')
        r = subprocess.run([EXTRACTOR, '-p', outdir, '-o', out, os.path.join(repo, u)],
                           stdout=subprocess.PIPE, stderr=subprocess.PIPE)
        return u, out, r.returncode, r.stderr.decode(errors='replace')

    with ThreadPoolExecutor(max_workers=16) as ex:
        results = list(ex.map(one, units))
    bad = []
    for u, out, rc, err in results:
        if rc != 0 or not os.path.exists(out):
            bad.append('%s: rc=%s %s' % (u, rc, err[-1500:]))
            continue
        if ' error: ' in err or ' error generated' in err or 'errors generated' in err:
            bad.append('%s: %s' % (u, err[-1500:]))
    if bad:
        shutil.rmtree(outdir, ignore_errors=True)
        raise AnalysisBroken('the tree does not parse:\n' + '\n'.join(bad))
    return outdir, units
